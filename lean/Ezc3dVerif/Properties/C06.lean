import Ezc3dVerif.Proofs.Frames
/-
  C06 — adding a frame appends, replaces or extends exactly as documented; column adders change
  every frame by exactly that column.  For every data-set size, every index, every frame content.
-/
namespace Ezc3d.C06

/-- a successful `c3d::frame(f, idx)` stores exactly what `Data::frame` computes from the old frames -/
theorem frame_ok_frames {F : FloatOps} {s s' : C3D} {f : Frame} {idx : Nat}
    (h : s.frame F f idx = .ok s') : dataFrame s.frames f idx = .ok s'.frames := by
  obtain ⟨fr, hfr, h⟩ := frame_ok_inv h
  have := updateParameters_frames h
  simp at this
  rw [this, hfr]

/-- without an index the data set grows by one frame holding exactly the given frame -/
theorem frame_append {F : FloatOps} {s s' : C3D} {f : Frame}
    (h : s.frame F f SIZE_MAX = .ok s') : s'.frames = s.frames ++ [f] := by
  have := frame_ok_frames h
  simp [dataFrame] at this
  exact this.symm

/-- with an index below the frame count it replaces that frame … -/
theorem frame_replace {F : FloatOps} {s s' : C3D} {f : Frame} {idx : Nat}
    (hi : idx < s.frames.length) (hs : idx ≠ SIZE_MAX)
    (h : s.frame F f idx = .ok s') : s'.frames = s.frames.set idx f := by
  have := frame_ok_frames h
  unfold dataFrame at this
  rw [if_neg hs, if_neg (by omega)] at this
  simp [setAt, hi] at this
  exact this.symm

/-- … with an index at or beyond the count it extends the data set to idx+1 frames, stores the frame
    there and leaves the frames in between empty -/
theorem frame_extend {F : FloatOps} {s s' : C3D} {f : Frame} {idx : Nat}
    (hi : s.frames.length ≤ idx) (hs : idx ≠ SIZE_MAX)
    (h : s.frame F f idx = .ok s') :
    s'.frames = s.frames ++ (List.replicate (idx - s.frames.length) ({} : Frame) ++ [f]) := by
  have := frame_ok_frames h
  unfold dataFrame at this
  rw [if_neg hs] at this
  split at this
  · cases this
  · have hlt : ¬ idx < s.frames.length := by omega
    simp [setAt, hlt] at this
    exact this.symm

theorem frame_extend_length {F : FloatOps} {s s' : C3D} {f : Frame} {idx : Nat}
    (hi : s.frames.length ≤ idx) (hs : idx ≠ SIZE_MAX)
    (h : s.frame F f idx = .ok s') : s'.frames.length = idx + 1 := by
  rw [frame_extend hi hs h]; simp; omega

/-- in all three cases every previously stored frame other than the target is unchanged -/
theorem frame_others_unchanged {F : FloatOps} {s s' : C3D} {f : Frame} {idx : Nat}
    (h : s.frame F f idx = .ok s') (j : Nat) (hj : j < s.frames.length) (hne : j ≠ idx) :
    s'.frames[j]? = s.frames[j]? := by
  by_cases hs : idx = SIZE_MAX
  · subst hs; rw [frame_append h]; simp [List.getElem?_append_left hj]
  · by_cases hi : idx < s.frames.length
    · rw [frame_replace hi hs h]; simp [Ne.symm hne]
    · rw [frame_extend (by omega) hs h]; simp [List.getElem?_append_left hj]

/-- the target holds exactly the given frame -/
theorem frame_target {F : FloatOps} {s s' : C3D} {f : Frame} {idx : Nat} (hs : idx ≠ SIZE_MAX)
    (h : s.frame F f idx = .ok s') : s'.frames[idx]? = some f := by
  by_cases hi : idx < s.frames.length
  · rw [frame_replace hi hs h]; simp [hi]
  · rw [frame_extend (by omega) hs h]
    rw [List.getElem?_append_right (by omega), List.getElem?_append_right (by simp)]
    simp

/-- a successful point-column add appends, to every stored frame, exactly the supplied columns
    (as many as the first supplied frame has) and changes nothing else -/
theorem pointCols_frames {F : FloatOps} {s s' : C3D} {frames : List Frame}
    (h : s.pointCols F frames = .ok s') :
    ∃ f0 rest, frames = f0 :: rest ∧ f0.pts.length ≠ 0 ∧ frames.length = s.frames.length ∧
      s'.frames = List.zipWith (fun st fr => { st with pts := st.pts ++ fr.pts.take f0.pts.length }) s.frames frames := by
  unfold C3D.pointCols at h
  split at h; · cases h
  rename_i hlen
  split at h; · cases h
  rename_i f0 rest
  split at h; · cases h
  rename_i hne
  obtain ⟨labels, _, h⟩ := Res.andThen_ok_iff.mp h
  split at h; · cases h
  have := updateParameters_frames h
  refine ⟨f0, rest, rfl, hne, by omega, this⟩

theorem zipWith_replicate_single (l : List Frame) (p : Point) :
    List.zipWith (fun st fr => ({ st with pts := st.pts ++ fr.pts.take 1 } : Frame)) l
      (List.replicate l.length ({ pts := [p] } : Frame))
    = l.map fun st => { st with pts := st.pts ++ [p] } := by
  induction l with
  | nil => simp
  | cons a t ih =>
    simp only [List.length_cons, List.replicate_succ, List.zipWith_cons_cons, List.map_cons, ih]
    simp

/-- adding one point by name to a data set adds it exactly once to every frame, everything else in
    every frame unchanged -/
theorem point_frames {F : FloatOps} {s s' : C3D} {name : Bytes} (hn : s.frames.length > 0)
    (h : s.point F name = .ok s') :
    s'.frames = s.frames.map fun st => { st with pts := st.pts ++ [Point.setName {} name] } := by
  unfold C3D.point at h
  simp only [hn, if_true] at h
  obtain ⟨f0, rest, heq, _, _, hz⟩ := pointCols_frames h
  have hf0 : f0 = ({ pts := [Point.setName {} name] } : Frame) := by
    cases hl : s.frames.length with
    | zero => omega
    | succ m =>
      rw [hl, List.replicate_succ] at heq
      exact (List.cons.inj heq).1.symm
  rw [hz, hf0]
  exact zipWith_replicate_single s.frames _

end Ezc3d.C06
