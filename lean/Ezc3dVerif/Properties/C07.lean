import Ezc3dVerif.Proofs.Updaters
/-
  C07 — frame-adding calls enforce their documented preconditions.
  Must-refuse theorems (with the exception class), one per documented condition, and the must-accept
  theorem; same for the column adders.  `Mand s.groups` (mandatory parameters present and typed) is the
  reachable-state hypothesis under which the guards can be evaluated at all.
-/
namespace Ezc3d.C07
open N

/-- point count differs from a non-zero POINT:USED → runtime error, object untouched -/
theorem frame_refuses_point_count (F : FloatOps) (s : C3D) (f : Frame) (idx : Nat) (used : Int)
    (hu : int0 s.groups POINT USED = .ok used) (h0 : intToU64 used ≠ 0) (hne : f.pts.length ≠ intToU64 used) :
    s.frame F f idx = .throw .runtime_error s := by
  unfold C3D.frame
  simp [hu, h0, hne]

theorem labelMissing_true (labels : List Bytes) (pts : List Point) (l : Bytes) (hmem : l ∈ labels)
    (hmiss : ∀ p ∈ pts, p.name ≠ l) : labelMissing labels pts = true := by
  unfold labelMissing
  rw [List.any_eq_true]
  refine ⟨l, hmem, ?_⟩
  have : (pts.any fun p => p.name == l) = false := by
    rw [List.any_eq_false]; intro p hp; simpa using hmiss p hp
  simp [this]

theorem labelMissing_false (labels : List Bytes) (pts : List Point) (hall : ∀ l ∈ labels, ∃ p ∈ pts, p.name = l) :
    labelMissing labels pts = false := by
  unfold labelMissing
  rw [List.any_eq_false]
  intro l hl
  obtain ⟨p, hp, hn⟩ := hall l hl
  have : (pts.any fun p => p.name == l) = true := by
    rw [List.any_eq_true]; exact ⟨p, hp, by simp [hn]⟩
  simp [this]

/-- a label of POINT:LABELS is missing from the frame → invalid argument -/
theorem frame_refuses_missing_label (F : FloatOps) (s : C3D) (f : Frame) (idx : Nat) (used : Int) (labels : List Bytes)
    (hu : int0 s.groups POINT USED = .ok used) (hc : intToU64 used = 0 ∨ f.pts.length = intToU64 used)
    (hl : strsOf s.groups POINT LABELS = .ok labels) (l : Bytes) (hmem : l ∈ labels) (hmiss : ∀ p ∈ f.pts, p.name ≠ l) :
    s.frame F f idx = .throw .invalid_argument s := by
  unfold C3D.frame
  have h1 : ¬ (intToU64 used ≠ 0 ∧ f.pts.length ≠ intToU64 used) := by
    rintro ⟨a, b⟩; rcases hc with h | h <;> contradiction
  simp only [hu, Res.andThen_ok, h1, if_false, hl, labelMissing_true labels f.pts l hmem hmiss, if_true]

/-- the frame carries points while POINT:RATE is 0 → runtime error -/
theorem frame_refuses_point_rate_zero (F : FloatOps) (s : C3D) (f : Frame) (idx : Nat) (used : Int)
    (labels : List Bytes) (rate : UInt32)
    (hu : int0 s.groups POINT USED = .ok used) (hc : intToU64 used = 0 ∨ f.pts.length = intToU64 used)
    (hl : strsOf s.groups POINT LABELS = .ok labels) (hall : ∀ l ∈ labels, ∃ p ∈ f.pts, p.name = l)
    (hp : f.pts.length > 0) (hr : float0 s.groups POINT RATE = .ok rate) (hz : isZeroF rate = true) :
    s.frame F f idx = .throw .runtime_error s := by
  unfold C3D.frame
  have h1 : ¬ (intToU64 used ≠ 0 ∧ f.pts.length ≠ intToU64 used) := by
    rintro ⟨a, b⟩; rcases hc with h | h <;> contradiction
  simp only [hu, Res.andThen_ok, h1, if_false, hl, labelMissing_false labels f.pts hall, Bool.false_eq_true,
    hp, if_true, hr, Res.map, Res.bind_ok, hz]

/-- the frame carries analog samples while ANALOG:RATE is 0 → runtime error -/
theorem frame_refuses_analog_rate_zero (F : FloatOps) (s : C3D) (f : Frame) (idx : Nat) (used : Int)
    (labels : List Bytes) (arate : UInt32)
    (hu : int0 s.groups POINT USED = .ok used) (hc : intToU64 used = 0 ∨ f.pts.length = intToU64 used)
    (hl : strsOf s.groups POINT LABELS = .ok labels) (hall : ∀ l ∈ labels, ∃ p ∈ f.pts, p.name = l)
    (hpr : f.pts.length = 0 ∨ ∃ r, float0 s.groups POINT RATE = .ok r ∧ isZeroF r = false)
    (hs : f.subs.length > 0) (hr : float0 s.groups ANALOG RATE = .ok arate) (hz : isZeroF arate = true) :
    s.frame F f idx = .throw .runtime_error s := by
  unfold C3D.frame
  have h1 : ¬ (intToU64 used ≠ 0 ∧ f.pts.length ≠ intToU64 used) := by
    rintro ⟨a, b⟩; rcases hc with h | h <;> contradiction
  rcases hpr with h0 | ⟨r, hr0, hz0⟩
  · have hp : ¬ f.pts.length > 0 := by omega
    simp only [hu, Res.andThen_ok, h1, if_false, hl, labelMissing_false labels f.pts hall, Bool.false_eq_true,
      hp, hs, if_true, hr, Res.map, Res.bind_ok, hz]
  · by_cases hp : f.pts.length > 0
    · simp only [hu, Res.andThen_ok, h1, if_false, hl, labelMissing_false labels f.pts hall, Bool.false_eq_true,
        hp, hs, if_true, hr0, hr, Res.map, Res.bind_ok, hz0, hz]
    · simp only [hu, Res.andThen_ok, h1, if_false, hl, labelMissing_false labels f.pts hall, Bool.false_eq_true,
        hp, hs, if_true, hr, Res.map, Res.bind_ok, hz]

/-- the channel count differs from a non-zero ANALOG:USED → the channel guard fires -/
theorem chanMismatch_of_count (f : Frame) (sf0 : SubFrame) (rest : List SubFrame) (n nabf : Nat)
    (hs : f.subs = sf0 :: rest) (hn : n ≠ 0) (hne : sf0.length ≠ n) : chanMismatch f n nabf = true := by
  unfold chanMismatch
  simp [hs, hn, hne]

/-- a frame without analog sub-frames never trips the channel guard -/
theorem chanMismatch_no_subs (f : Frame) (n nabf : Nat) (hs : f.subs = []) : chanMismatch f n nabf = false := by
  unfold chanMismatch; simp [hs]

/-- a frame that matches the declared names (in order), counts and rates is accepted -/
theorem frame_accepts (F : FloatOps) (s : C3D) (f : Frame) (idx : Nat) (hM : Mand s.groups)
    (used aused : Int) (labels : List Bytes) (prate arate : UInt32)
    (hu : int0 s.groups POINT USED = .ok used) (hl : strsOf s.groups POINT LABELS = .ok labels)
    (hpr : float0 s.groups POINT RATE = .ok prate) (har : float0 s.groups ANALOG RATE = .ok arate)
    (hau : int0 s.groups ANALOG USED = .ok aused)
    (hnames : f.pts.map (·.name) = labels) (hcount : f.pts.length = intToU64 used)
    (hprz : f.pts.length > 0 → isZeroF prate = false) (harz : f.subs.length > 0 → isZeroF arate = false)
    (hch : chanMismatch f (intToU64 aused) s.hdr.nbAnalogByFrame = false)
    (hidx : idx = SIZE_MAX ∨ idx + 1 ≤ maxFrames) :
    ∃ s', s.frame F f idx = .ok s' := by
  have h1 : ¬ (intToU64 used ≠ 0 ∧ f.pts.length ≠ intToU64 used) := by rintro ⟨_, b⟩; exact b hcount
  have h2 : labelMissing labels f.pts = false := by
    apply labelMissing_false
    intro l hl'
    rw [← hnames, List.mem_map] at hl'
    obtain ⟨p, hp, rfl⟩ := hl'
    exact ⟨p, hp, rfl⟩
  have h3 : outOfOrder labels f.pts = false := by
    rw [← hnames]
    clear h2 hnames hcount hprz hch
    induction f.pts with
    | nil => simp [outOfOrder]
    | cons p t ih => simp [outOfOrder, ih]
  have hdf : ∃ fr, dataFrame s.frames f idx = .ok fr := by
    unfold dataFrame
    rcases hidx with h | h
    · simp [h]
    · split
      · exact ⟨_, rfl⟩
      · have : ¬ (idx ≥ s.frames.length ∧ idx + 1 > maxFrames) := by omega
        simp [this]
  obtain ⟨fr, hfr⟩ := hdf
  obtain ⟨g, hd, hok, _⟩ := updateParameters_ok_of_Mand F (s := { s with frames := fr }) hM [] [] (by simp)
  refine ⟨{ s with frames := fr, groups := g, hdr := hd }, ?_⟩
  unfold C3D.frame
  simp only [hu, Res.andThen_ok, h1, if_false, hl, h2, Bool.false_eq_true]
  by_cases hp : f.pts.length > 0
  · by_cases hs : f.subs.length > 0
    · simp only [hp, hs, if_true, hpr, har, Res.map, Res.bind_ok, hprz hp, harz hs, Res.andThen_ok, Bool.false_eq_true,
        if_false, hau, hch, h3, hfr, hok]
    · simp only [hp, hs, if_true, if_false, hpr, Res.map, Res.bind_ok, hprz hp, Res.andThen_ok, Bool.false_eq_true,
        hau, hch, h3, hfr, hok]
  · by_cases hs : f.subs.length > 0
    · simp only [hp, hs, if_true, if_false, har, Res.map, Res.bind_ok, harz hs, Res.andThen_ok, Bool.false_eq_true,
        hau, hch, h3, hfr, hok]
    · simp only [hp, hs, if_false, Res.andThen_ok, Bool.false_eq_true, hau, hch, h3, hfr, hok]

/-! ### column adders -/

/-- the number of frames supplied differs from the data set, or nothing is supplied → invalid argument -/
theorem pointCols_refuses_frame_count (F : FloatOps) (s : C3D) (frames : List Frame)
    (h : frames.length = 0 ∨ frames.length ≠ s.frames.length) : s.pointCols F frames = .throw .invalid_argument s := by
  unfold C3D.pointCols; rw [if_pos h]

theorem analogCols_refuses_frame_count (F : FloatOps) (s : C3D) (frames : List Frame)
    (h : frames.length = 0 ∨ frames.length ≠ s.frames.length) : s.analogCols F frames = .throw .invalid_argument s := by
  unfold C3D.analogCols; rw [if_pos h]

/-- a new point name that already exists (in any position of the new columns) → invalid argument -/
theorem pointCols_refuses_existing_name (F : FloatOps) (s : C3D) (f0 : Frame) (rest : List Frame) (labels : List Bytes)
    (hlen : (f0 :: rest).length = s.frames.length) (hne : f0.pts.length ≠ 0)
    (hl : strsOf s.groups POINT LABELS = .ok labels) (p : Point) (hp : p ∈ f0.pts) (hex : p.name ∈ labels) :
    s.pointCols F (f0 :: rest) = .throw .invalid_argument s := by
  unfold C3D.pointCols
  have h1 : ¬ ((f0 :: rest).length = 0 ∨ (f0 :: rest).length ≠ s.frames.length) := by
    rintro (h | h)
    · simp at h
    · exact h hlen
  have hck : checkPointCols labels (f0 :: rest) (enum f0.pts) = some .invalid_argument := by
    unfold checkPointCols
    have : (enum f0.pts).any (fun c => labels.contains c.2.name) = true := by
      rw [List.any_eq_true]
      unfold enum
      obtain ⟨i, hi, hpi⟩ := List.getElem_of_mem hp
      refine ⟨(i, p), ?_, by simpa using hex⟩
      rw [List.mem_iff_getElem]
      refine ⟨i, by simp [hi], ?_⟩
      simp [hpi]
    rw [if_pos this]
  rw [if_neg h1]
  simp only [hne, if_false, hl, Res.andThen_ok, hck]

/-- sub-frame count differs from the data set → invalid argument -/
theorem analogCols_refuses_subframe_count (F : FloatOps) (s : C3D) (f0 : Frame) (rest : List Frame)
    (hlen : (f0 :: rest).length = s.frames.length) (hns : f0.subs.length ≠ s.hdr.nbAnalogByFrame) :
    s.analogCols F (f0 :: rest) = .throw .invalid_argument s := by
  unfold C3D.analogCols
  have h1 : ¬ ((f0 :: rest).length = 0 ∨ (f0 :: rest).length ≠ s.frames.length) := by
    rintro (h | h)
    · simp at h
    · exact h hlen
  rw [if_neg h1]
  simp only [hns, ne_eq, not_false_eq_true, if_true]

end Ezc3d.C07
