import Ezc3dVerif.Properties.C15
/-
  C15 (continued) — EVERY fault schedule, transient faults included. `C3D.saveTo` fixes one shape of fault (the destination
  accepts `budget` bytes, then refuses for ever). Here the operating system answers each write call the save issues - the
  flushes forced by the seeks of the back-patches, by a full buffer, by close() - with accept or refuse according to an ARBITRARY
  schedule. The stream's failure state is sticky (libstdc++: once badbit is set every later write is a no-op and no further call
  is issued; `c3d::write` never clears it), and `c3d::write` throws when the stream has failed after close().
  Theorem: the save returns normally EXACTLY when the OS refused none of the calls - so a single refused call, even if every
  later call would have been accepted, is reported. (The seeded change "`f.clear()` before the back-patch seek" is exactly a
  writer for which this fails.)
-/
namespace Ezc3d.C15

/-- the output stream as `c3d::write` sees it -/
structure OStream where
  bad : Bool := false      -- badbit | failbit, sticky
  calls : Nat := 0         -- write calls issued to the OS so far

/-- one flush: skipped when the stream has already failed, else the OS is asked (call number `calls`) -/
def OStream.flush (st : OStream) (refuse : Nat → Bool) : OStream :=
  if st.bad then st else { bad := refuse st.calls, calls := st.calls + 1 }

def OStream.flushes (st : OStream) (refuse : Nat → Bool) : Nat → OStream
  | 0 => st
  | n + 1 => (st.flush refuse).flushes refuse n

/-- a save that needs `n` flushes before close(); close() is one more; normal return iff the stream has not failed -/
def saveSched (n : Nat) (refuse : Nat → Bool) : Bool := !(({} : OStream).flushes refuse (n + 1)).bad

theorem flushes_spec (refuse : Nat → Bool) : ∀ (n : Nat) (st : OStream), st.bad = false →
    ((st.flushes refuse n).bad = false ↔ ∀ i, i < n → refuse (st.calls + i) = false) ∧
    ((st.flushes refuse n).bad = false → (st.flushes refuse n).calls = st.calls + n) := by
  intro n
  induction n with
  | zero => intro st hb; exact ⟨⟨fun _ i hi => absurd hi (Nat.not_lt_zero i), fun _ => hb⟩, fun _ => rfl⟩
  | succ k ih =>
    intro st hb
    simp only [OStream.flushes]
    cases hr : refuse st.calls with
    | true =>
      -- the call is refused: the stream fails and stays failed
      have hf : st.flush refuse = { bad := true, calls := st.calls + 1 } := by simp [OStream.flush, hb, hr]
      have stuck : ∀ m (s : OStream), s.bad = true → (s.flushes refuse m).bad = true := by
        intro m
        induction m with
        | zero => intro s hs; exact hs
        | succ j ihj => intro s hs; simp only [OStream.flushes]; exact ihj _ (by simp [OStream.flush, hs])
      have hbad := stuck k (st.flush refuse) (by rw [hf])
      refine ⟨⟨fun h => ?_, fun h => ?_⟩, fun h => ?_⟩
      · rw [hbad] at h; cases h
      · have := h 0 (by omega); rw [Nat.add_zero, hr] at this; cases this
      · rw [hbad] at h; cases h
    | false =>
      have hf : st.flush refuse = { bad := false, calls := st.calls + 1 } := by simp [OStream.flush, hb, hr]
      obtain ⟨h1, h2⟩ := ih (st.flush refuse) (by rw [hf])
      rw [hf] at h1 h2
      simp only at h1 h2
      rw [hf]
      refine ⟨⟨fun h i hi => ?_, fun h => ?_⟩, fun h => ?_⟩
      · cases i with
        | zero => rw [Nat.add_zero]; exact hr
        | succ j => have := (h1.mp h) j (by omega); rw [show st.calls + (j + 1) = st.calls + 1 + j by omega]; exact this
      · exact h1.mpr fun i hi => by have := h (i + 1) (by omega); rw [show st.calls + (i + 1) = st.calls + 1 + i by omega] at this; exact this
      · rw [h2 h]; omega

/-- FOR EVERY FAULT SCHEDULE: the save returns normally exactly when none of the write calls it issues - the last one is
    close() - is refused -/
theorem saveSched_ok_iff (n : Nat) (refuse : Nat → Bool) : saveSched n refuse = true ↔ ∀ i, i ≤ n → refuse i = false := by
  unfold saveSched
  have := (flushes_spec refuse (n + 1) {} rfl).1
  simp only [Nat.zero_add] at this
  rw [Bool.not_eq_true', this]
  constructor
  · intro h i hi; exact h i (by omega)
  · intro h i hi; exact h i (by omega)

/-- a TRANSIENT fault - one call refused, every other call accepted - is reported -/
theorem transient_fault_reported (n k : Nat) (hk : k ≤ n) : saveSched n (fun i => i == k) = false := by
  cases h : saveSched n (fun i => i == k) with
  | false => rfl
  | true => have := (saveSched_ok_iff n _).mp h k hk; simp at this

/-- non-vacuity: with no refusal the save succeeds; the budget-style fault of `saveTo` is the schedule "refuse from call j on" -/
example : saveSched 5 (fun _ => false) = true := by decide
example : saveSched 5 (fun i => decide (3 ≤ i)) = false := by decide

end Ezc3d.C15
