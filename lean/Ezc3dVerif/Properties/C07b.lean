import Ezc3dVerif.Properties.C07
/-
  C07 (continued) — "a frame that matches the declared names, counts, rates and sub-frame ratio is always accepted", for the
  state in which NOTHING is declared yet: no point was declared by name (POINT:USED = 0, no label), so the frame brings its own
  points and defines them. It is accepted whenever the rates it needs are set and its channels match the declared ones.
-/
namespace Ezc3d.C07
open N

theorem frame_accepts_own_points (F : FloatOps) (s : C3D) (f : Frame) (idx : Nat) (hM : Mand s.groups)
    (used aused : Int) (prate arate : UInt32)
    (hu : int0 s.groups POINT USED = .ok used) (hu0 : intToU64 used = 0) (hl : strsOf s.groups POINT LABELS = .ok [])
    (hpr : float0 s.groups POINT RATE = .ok prate) (har : float0 s.groups ANALOG RATE = .ok arate)
    (hau : int0 s.groups ANALOG USED = .ok aused)
    (hprz : f.pts.length > 0 → isZeroF prate = false) (harz : f.subs.length > 0 → isZeroF arate = false)
    (hch : chanMismatch f (intToU64 aused) s.hdr.nbAnalogByFrame = false)
    (hidx : idx = SIZE_MAX ∨ idx + 1 ≤ maxFrames) :
    ∃ s', s.frame F f idx = .ok s' := by
  have h1 : ¬ (intToU64 used ≠ 0 ∧ f.pts.length ≠ intToU64 used) := by rintro ⟨a, _⟩; exact a hu0
  have h2 : labelMissing [] f.pts = false := by simp [labelMissing]
  have h3 : outOfOrder [] f.pts = false := by simp [outOfOrder]
  have hdf : ∃ fr, dataFrame s.frames f idx = .ok fr := by
    unfold dataFrame
    rcases hidx with h | h
    · simp [h]
    · split
      · exact ⟨_, rfl⟩
      · have : ¬ (idx ≥ s.frames.length ∧ idx + 1 > maxFrames) := by omega
        simp [this]
  obtain ⟨fr, hfr⟩ := hdf
  obtain ⟨g, hd, hok, _⟩ := updateParameters_ok_of_Mand F (s := { s with frames := fr }) hM [] [] (by simp)
  refine ⟨{ s with frames := fr, groups := g, hdr := hd }, ?_⟩
  unfold C3D.frame
  simp only [hu, Res.andThen_ok, h1, if_false, hl, h2, Bool.false_eq_true]
  by_cases hp : f.pts.length > 0
  · by_cases hs : f.subs.length > 0
    · simp only [hp, hs, if_true, hpr, har, Res.map, Res.bind_ok, hprz hp, harz hs, Res.andThen_ok, Bool.false_eq_true,
        if_false, hau, hch, h3, hfr, hok]
    · simp only [hp, hs, if_true, if_false, hpr, Res.map, Res.bind_ok, hprz hp, Res.andThen_ok, Bool.false_eq_true,
        hau, hch, h3, hfr, hok]
  · by_cases hs : f.subs.length > 0
    · simp only [hp, hs, if_true, if_false, har, Res.map, Res.bind_ok, harz hs, Res.andThen_ok, Bool.false_eq_true,
        hau, hch, h3, hfr, hok]
    · simp only [hp, hs, if_false, Res.andThen_ok, Bool.false_eq_true, hau, hch, h3, hfr, hok]

end Ezc3d.C07
