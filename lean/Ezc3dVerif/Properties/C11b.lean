import Ezc3dVerif.Properties.C11
import Ezc3dVerif.Proofs.InsertLookup
/-
  C11 (continued) — look-ups by name AFTER an element was renamed in place (`point_nonConst(i).name(new)`, or the same through the
  by-name handle). A look-up must answer from the CURRENT names: the new name is found at or before the renamed position, a name
  that is neither the old nor the new one resolves exactly as before, and an old name that occurred only there is no longer
  found. (The seeded changes "name → index map not invalidated" answer from a stale map and violate each of the three.)
  Stated for any container with a name projection (points of a frame, channels of a sub-frame, parameters, groups).
-/
namespace Ezc3d.C11

variable {α : Type} (name : α → Bytes)

/-- THE NEW NAME IS FOUND, at the first position carrying it — never after the renamed one -/
theorem renamed_found (l : List α) (j : Nat) (q : α) (hj : j < l.length) :
    ∃ i, nameIdx name (l.set j q) (name q) = .ok i ∧ i ≤ j := by
  unfold nameIdx
  cases h : (l.set j q).findIdx? (fun a => name a == name q) with
  | some i =>
    refine ⟨i, rfl, ?_⟩
    rw [List.findIdx?_eq_some_iff_getElem] at h
    obtain ⟨_, _, hmin⟩ := h
    rcases Nat.lt_or_ge j i with hlt | hge
    · have := hmin j hlt
      simp [List.getElem_set_self] at this
    · exact hge
  | none =>
    rw [List.findIdx?_eq_none_iff] at h
    have := h q (by
      have : (l.set j q)[j]? = some q := by rw [List.getElem?_set_self hj]
      exact List.mem_of_getElem? this)
    simp at this

/-- A NAME THAT IS NEITHER THE OLD NOR THE NEW ONE RESOLVES AS BEFORE -/
theorem other_names_unchanged (l : List α) (j : Nat) (q x : α) (key : Bytes) (hx : l[j]? = some x)
    (h1 : key ≠ name x) (h2 : key ≠ name q) :
    nameIdx name (l.set j q) key = nameIdx name l key := by
  unfold nameIdx
  have hp : (fun a => name a == key) q = (fun a => name a == key) x := by
    have a1 : (name q == key) = false := by simpa using fun h => h2 h.symm
    have a2 : (name x == key) = false := by simpa using fun h => h1 h.symm
    simp only [a1, a2]
  rw [Ezc3d.findIdx?_set_samepred l j q x _ hx hp]

/-- AN OLD NAME THAT OCCURRED ONLY AT THE RENAMED POSITION IS NO LONGER FOUND -/
theorem old_name_gone (l : List α) (j : Nat) (q x : α) (hx : l[j]? = some x) (hne : name q ≠ name x)
    (honly : ∀ i y, l[i]? = some y → name y = name x → i = j) :
    nameIdx name (l.set j q) (name x) = .throw .invalid_argument := by
  unfold nameIdx
  have : (l.set j q).findIdx? (fun a => name a == name x) = none := by
    rw [List.findIdx?_eq_none_iff]
    intro y hy
    obtain ⟨i, hi⟩ := List.getElem?_of_mem hy
    by_cases hij : i = j
    · subst hij
      have hlt : i < l.length := by
        rcases Nat.lt_or_ge i l.length with h | h
        · exact h
        · rw [List.getElem?_eq_none h] at hx; cases hx
      rw [List.getElem?_set_self hlt] at hi
      cases hi
      simpa using hne
    · rw [List.getElem?_set_ne (fun h => hij h.symm)] at hi
      simp only [beq_eq_false_iff_ne, ne_eq]
      intro hc
      exact hij (honly i y hi hc)
  rw [this]

/-! ### non-vacuity: three points, the middle one renamed to the name of the last -/

def threePts : List Point := [{ name := [65] }, { name := [66] }, { name := [67] }]

example : nameIdx Point.name (threePts.set 1 { name := [67] }) [67] = .ok 1 := by decide
example : nameIdx Point.name (threePts.set 1 { name := [67] }) [66] = .throw .invalid_argument := by decide
example : nameIdx Point.name (threePts.set 1 { name := [67] }) [65] = nameIdx Point.name threePts [65] := by decide

end Ezc3d.C11
