import Ezc3dVerif.Proofs.NoUB
import Ezc3dVerif.Proofs.All
import Ezc3dVerif.Proofs.Outcome
import Ezc3dVerif.Proofs.Updaters
import Ezc3dVerif.Properties.C09
/-
  C13 — no memory error on any valid use (the part a model can carry).
  Every container access the C++ performs without a bounds check (`v[i]`, `dimension[k]`,
  `_param_data_*[cmp]`) is an access in the model that evaluates to `ub` when it is out of range.
  These theorems say the public mutators and the loader NEVER evaluate to `ub` — for every state, every
  argument, every byte string — and the writer does not either on objects whose parameters hold as many
  values as their dimensions announce (what `Parameter::set` and the reader establish).
  What the model cannot exhibit (heap overflows inside libstdc++, use-after-free, wrong deallocator) is
  observed by the sanitizer runs of the check.
-/
namespace Ezc3d.C13
open N

theorem subFromRates_noUB (F : FloatOps) (gs : List Group) (r : UInt32) (h : Header) : (subFromRates F gs r h).NoUB := by
  unfold subFromRates
  apply Outcome.noUB_andThen (byName_noUB _ _ _); intro ga
  apply Outcome.noUB_ite
  · apply Outcome.noUB_ite
    · exact Outcome.noUB_ok _
    · exact Outcome.noUB_andThen (float0_noUB _ _ _) (fun _ => Outcome.noUB_ok _)
  · exact Outcome.noUB_ok _

theorem updateHeaderH_noUB (F : FloatOps) (gs : List Group) (frames : List Frame) (h : Header) :
    (updateHeaderH F gs frames h).NoUB := by
  unfold updateHeaderH
  apply Outcome.noUB_andThen (float0_noUB _ _ _); intro pr
  apply Outcome.noUB_andThen (int0_noUB _ _ _); intro used
  apply Outcome.noUB_bind
  · cases frames with
    | nil => exact subFromRates_noUB _ _ _ _
    | cons f0 t =>
      simp only
      apply Outcome.noUB_ite
      · exact Outcome.noUB_ok _
      · exact subFromRates_noUB _ _ _ _
  · intro h3
    apply Outcome.noUB_andThen (byName_noUB _ _ _); intro ga
    apply Outcome.noUB_bind
    · apply Outcome.noUB_ite
      · exact Outcome.noUB_andThen (int0_noUB _ _ _) (fun _ => Outcome.noUB_ok _)
      · exact Outcome.noUB_ok _
    · intro h4
      apply Outcome.noUB_andThen (int0_noUB _ _ _); intro fr
      apply Outcome.noUB_ite <;> exact Outcome.noUB_ok _

theorem updateHeader_noUB (F : FloatOps) (s : C3D) : (updateHeader F s).NoUB :=
  Outcome.noUB_lift (updateHeaderH_noUB F _ _ _)

theorem updatePointParams_noUB (gs : List Group) (frames : List Frame) (np : List Bytes) :
    (updatePointParams gs frames np).NoUB := by
  unfold updatePointParams
  apply Outcome.noUB_andThen (gpIdx_noUB _ _ _); intro ⟨gP, iF⟩
  apply Outcome.noUB_andThen (int0_noUB _ _ _); intro fr
  apply Outcome.noUB_andThen (labelsFor_noUB _ _ _); intro ol
  apply Outcome.noUB_andThen (int0_noUB _ _ _); intro used
  apply Outcome.noUB_ite
  · apply Outcome.noUB_andThen (gpIdx_noUB _ _ _); intro ⟨_, iU⟩
    apply Outcome.noUB_andThen (gpIdx_noUB _ _ _); intro ⟨_, iL⟩
    exact Outcome.noUB_ok _
  · exact Outcome.noUB_ok _

theorem updateAnalogParams_noUB (gs : List Group) (frames : List Frame) (na : List Bytes) :
    (updateAnalogParams gs frames na).NoUB := by
  unfold updateAnalogParams
  apply Outcome.noUB_andThen (groupIdx_noUB _ _); intro gA
  apply Outcome.noUB_andThen (labelsFor_noUB _ _ _); intro ol
  apply Outcome.noUB_andThen (int0_noUB _ _ _); intro used
  apply Outcome.noUB_ite
  · apply Outcome.noUB_andThen (gpIdx_noUB _ _ _); intro ⟨_, iU⟩
    apply Outcome.noUB_andThen (gpIdx_noUB _ _ _); intro ⟨_, iL⟩
    apply Outcome.noUB_andThen (gpIdx_noUB _ _ _); intro ⟨_, iS⟩
    apply Outcome.noUB_andThen
      (Res.noUB_bind (atIdx_noUB _ _) (fun _ => Res.noUB_bind (atIdx_noUB _ _) (fun q => asFloat_noUB q))); intro sc
    apply Outcome.noUB_andThen (gpIdx_noUB _ _ _); intro ⟨_, iO⟩
    apply Outcome.noUB_andThen
      (Res.noUB_bind (atIdx_noUB _ _) (fun _ => Res.noUB_bind (atIdx_noUB _ _) (fun q => asInt_noUB q))); intro off
    dsimp only
    split
    · apply Outcome.noUB_andThen
        (Res.noUB_bind (atIdx_noUB _ _) (fun _ => Res.noUB_bind (atIdx_noUB _ _) (fun q => asString_noUB q))); intro un
      exact Outcome.noUB_ok _
    · exact Outcome.noUB_ok _
  · exact Outcome.noUB_ok _

theorem updateParameters_noUB (F : FloatOps) (s : C3D) (np na : List Bytes) : (updateParameters F s np na).NoUB := by
  unfold updateParameters
  apply Outcome.noUB_ite; exact Outcome.noUB_throw _ _
  apply Outcome.noUB_ite; exact Outcome.noUB_throw _ _
  apply Outcome.noUB_bind
  · apply Outcome.noUB_lift
    exact Outcome.noUB_bind (updatePointParams_noUB _ _ _) (fun g => updateAnalogParams_noUB _ _ _)
  · intro s1; exact updateHeader_noUB F s1

theorem dataFrame_noUB (fs : List Frame) (f : Frame) (idx : Nat) : (dataFrame fs f idx).NoUB := by
  intro k; unfold dataFrame; split
  · simp
  · split <;> simp

/-- every public mutator, on every state, with every argument: never an unchecked out-of-range access -/
theorem step_noUB (F : FloatOps) (s : C3D) (op : Op) : (step F s op).NoUB := by
  cases op with
  | parameter g p =>
    show (s.parameter F g p).NoUB
    unfold C3D.parameter
    apply Outcome.noUB_ite; exact Outcome.noUB_throw _ _
    apply Outcome.noUB_ite; exact Outcome.noUB_throw _ _
    apply Outcome.noUB_andThen
    · unfold insertParam
      exact Res.noUB_bind (groupIdx_noUB _ _) (fun _ => Res.noUB_bind (atIdx_noUB _ _) (fun g' =>
        Res.noUB_bind (addParam_noUB g' p) (fun _ => Res.noUB_ok _)))
    · intro gs'; exact updateHeader_noUB F _
  | lockGroup g =>
    show (s.setGroupLock g true).NoUB
    unfold C3D.setGroupLock
    exact Outcome.noUB_andThen (groupIdx_noUB _ _) (fun _ => Outcome.noUB_ok _)
  | unlockGroup g =>
    show (s.setGroupLock g false).NoUB
    unfold C3D.setGroupLock
    exact Outcome.noUB_andThen (groupIdx_noUB _ _) (fun _ => Outcome.noUB_ok _)
  | frame f idx =>
    show (s.frame F f idx).NoUB
    unfold C3D.frame
    apply Outcome.noUB_andThen (int0_noUB _ _ _); intro used
    apply Outcome.noUB_ite; exact Outcome.noUB_throw _ _
    apply Outcome.noUB_andThen (strsOf_noUB _ _ _); intro labels
    apply Outcome.noUB_ite; exact Outcome.noUB_throw _ _
    apply Outcome.noUB_andThen
    · split
      · exact Res.noUB_map (float0_noUB _ _ _)
      · exact Res.noUB_ok _
    intro pz
    apply Outcome.noUB_ite; exact Outcome.noUB_throw _ _
    apply Outcome.noUB_andThen
    · split
      · exact Res.noUB_map (float0_noUB _ _ _)
      · exact Res.noUB_ok _
    intro az
    apply Outcome.noUB_ite; exact Outcome.noUB_throw _ _
    apply Outcome.noUB_andThen (int0_noUB _ _ _); intro aused
    apply Outcome.noUB_ite; exact Outcome.noUB_throw _ _
    apply Outcome.noUB_ite; exact Outcome.noUB_throw _ _
    apply Outcome.noUB_andThen (dataFrame_noUB _ _ _); intro fr
    exact updateParameters_noUB F _ _ _
  | point n =>
    show (s.point F n).NoUB
    unfold C3D.point
    apply Outcome.noUB_ite
    · unfold C3D.pointCols
      apply Outcome.noUB_ite; exact Outcome.noUB_throw _ _
      split
      · exact Outcome.noUB_throw _ _
      · apply Outcome.noUB_ite; exact Outcome.noUB_throw _ _
        apply Outcome.noUB_andThen (strsOf_noUB _ _ _); intro labels
        split
        · exact Outcome.noUB_throw _ _
        · exact updateParameters_noUB F _ _ _
    · exact updateParameters_noUB F _ _ _
  | pointCols fs =>
    show (s.pointCols F fs).NoUB
    unfold C3D.pointCols
    apply Outcome.noUB_ite; exact Outcome.noUB_throw _ _
    split
    · exact Outcome.noUB_throw _ _
    · apply Outcome.noUB_ite; exact Outcome.noUB_throw _ _
      apply Outcome.noUB_andThen (strsOf_noUB _ _ _); intro labels
      split
      · exact Outcome.noUB_throw _ _
      · exact updateParameters_noUB F _ _ _
  | analog n =>
    show (s.analog F n).NoUB
    unfold C3D.analog
    apply Outcome.noUB_ite
    · unfold C3D.analogCols
      apply Outcome.noUB_ite; exact Outcome.noUB_throw _ _
      split
      · exact Outcome.noUB_throw _ _
      · apply Outcome.noUB_ite; exact Outcome.noUB_throw _ _
        split
        · exact Outcome.noUB_throw _ _
        · apply Outcome.noUB_ite; exact Outcome.noUB_throw _ _
          apply Outcome.noUB_andThen (strsOf_noUB _ _ _); intro labels
          dsimp only
          split
          · exact Outcome.noUB_throw _ _
          · exact updateParameters_noUB F _ _ _
    · exact updateParameters_noUB F _ _ _
  | analogCols fs =>
    show (s.analogCols F fs).NoUB
    unfold C3D.analogCols
    apply Outcome.noUB_ite; exact Outcome.noUB_throw _ _
    split
    · exact Outcome.noUB_throw _ _
    · apply Outcome.noUB_ite; exact Outcome.noUB_throw _ _
      split
      · exact Outcome.noUB_throw _ _
      · apply Outcome.noUB_ite; exact Outcome.noUB_throw _ _
        apply Outcome.noUB_andThen (strsOf_noUB _ _ _); intro labels
        dsimp only
        split
        · exact Outcome.noUB_throw _ _
        · exact updateParameters_noUB F _ _ _

/-- whole histories: no op of any history, from any start state, evaluates to `ub` -/
def runOps (F : FloatOps) (s : C3D) : List Op → C3D
  | [] => s
  | op :: rest => match step F s op with
    | .ok s' => runOps F s' rest
    | .throw _ l => runOps F l rest
    | .ub _ => s

theorem history_noUB (F : FloatOps) (s : C3D) (ops : List Op) (op : Op) : (step F (runOps F s ops) op).NoUB :=
  step_noUB F _ op

/-! ### the writer -/

/-- a parameter holds at least as many values as its dimensions announce (what `Parameter::set` and the
    reader establish: exactly as many) -/
def ParamWF (p : Param) : Prop :=
  match p.type with
  | .char => if p.dims.length = 1 then (hasSize p.dims > 0 → p.strs ≠ []) else (p.dims.drop 1).prod ≤ p.strs.length
  | .byte | .int => p.dims.prod ≤ p.ints.length
  | .float => p.dims.prod ≤ p.floats.length
  | .none => True

theorem writeValues_noUB (p : Param) (count : Nat)
    (h : match p.type with
         | .char => count ≤ p.strs.length | .byte | .int => count ≤ p.ints.length
         | .float => count ≤ p.floats.length | .none => True) : (p.writeValues count).NoUB := by
  intro k
  unfold Param.writeValues
  cases ht : p.type <;> simp only [ht] at h ⊢
  all_goals (first | (split <;> first | omega | simp) | simp)

theorem Param.write_noUB (p : Param) (gid : Int) (ip : Bool) (h : ParamWF p) : (p.write gid ip).NoUB := by
  unfold Param.write
  apply Res.noUB_bind
  · unfold Param.writeData
    intro k
    unfold ParamWF at h
    split
    · split
      · rename_i hc
        simp only [hc] at h
        split
        · rename_i h1
          simp only [h1, if_true] at h
          split
          · simp
          · rename_i hs
            have := h (by assumption)
            exact absurd hs this
        · rename_i h1
          simp only [h1, if_false] at h
          have := writeValues_noUB p (p.dims.drop 1).prod (by simp only [hc]; exact h)
          intro hh
          cases hw : p.writeValues (p.dims.drop 1).prod with
          | ok b => rw [hw] at hh; simp at hh
          | throw e => rw [hw] at hh; simp at hh
          | ub k' => exact this k' hw
      · split
        · simp
        · rename_i hc _
          intro hh
          have hcount : (match p.type with
              | .char => p.dims.prod ≤ p.strs.length | .byte | .int => p.dims.prod ≤ p.ints.length
              | .float => p.dims.prod ≤ p.floats.length | .none => True) := by
            cases ht : p.type <;> simp only [ht] at h hc ⊢ <;> first | exact h | trivial | exact absurd rfl hc
          have := writeValues_noUB p p.dims.prod hcount
          cases hw : p.writeValues p.dims.prod with
          | ok b => rw [hw] at hh; simp at hh
          | throw e => rw [hw] at hh; simp at hh
          | ub k' => exact this k' hw
    · simp
  · intro ⟨vals, slot⟩; exact Res.noUB_ok _


theorem writeParamList_noUB (gid : Int) (ip : Bool) (ps : List Param) (h : ∀ p ∈ ps, ParamWF p) : (writeParamList gid ip ps).NoUB := by
  induction ps with
  | nil => exact Res.noUB_ok _
  | cons p rest ih =>
    unfold writeParamList
    apply Res.noUB_bind (Param.write_noUB p gid ip (h p (by simp))); intro ⟨b, s1⟩
    apply Res.noUB_bind (ih (fun q hq => h q (by simp [hq]))); intro ⟨bs, s2⟩
    exact Res.noUB_ok _

theorem writeGroupList_noUB (gs : List Group) (i : Nat) (h : ∀ g ∈ gs, ∀ p ∈ g.params, ParamWF p) :
    (writeGroupList gs i).NoUB := by
  induction gs generalizing i with
  | nil => exact Res.noUB_ok _
  | cons g rest ih =>
    unfold writeGroupList
    apply Res.noUB_bind
    · split
      · exact Res.noUB_ok _
      · unfold Group.write
        exact Res.noUB_bind (writeParamList_noUB _ _ _ (h g (by simp))) (fun _ => Res.noUB_ok _)
    · intro ⟨b, s1⟩
      apply Res.noUB_bind (ih (i + 1) (fun g' hg' => h g' (by simp [hg']))); intro ⟨bs, s2⟩
      exact Res.noUB_ok _

/-- saving never indexes a value vector out of range when every parameter holds the values its
    dimensions announce -/
theorem write_noUB (s : C3D) (h : ∀ g ∈ s.groups, ∀ p ∈ g.params, ParamWF p) : s.write.NoUB := by
  unfold C3D.write
  apply Res.noUB_bind
  · unfold writeParamSection
    exact Res.noUB_bind (writeGroupList_noUB _ _ h) (fun _ => Res.noUB_ok _)
  · intro ps; exact Res.noUB_ok _

theorem effDims_ne_nil (n : Nat) (dims : List Nat) : effDims n dims ≠ [] := by
  unfold effDims; split
  · simp
  · rename_i h; intro h'; apply h; simp [h']

theorem prod_le_of_consistent (n : Nat) (dims : List Nat) (h : dimConsistent n (effDims n dims) = true) :
    (effDims n dims).prod ≤ n := by
  rcases (C09.dimConsistent_iff n _).mp h with ⟨_, h1 | h1⟩ | ⟨_, h1⟩
  · exact absurd h1 (effDims_ne_nil n dims)
  · rw [C09.prod_zero_of_mem _ h1]; omega
  · omega

/-- what `Parameter::set` stores is well-formed -/
theorem setInts_WF (p p' : Param) (data : List Int) (dims : List Nat) (h : p.setInts data dims = .ok p') : ParamWF p' := by
  unfold Param.setInts at h
  split at h
  · rename_i hc; cases h; exact prod_le_of_consistent _ _ hc
  · cases h

theorem setFloats_WF (p p' : Param) (data : List UInt32) (dims : List Nat) (h : p.setFloats data dims = .ok p') : ParamWF p' := by
  unfold Param.setFloats at h
  split at h
  · rename_i hc; cases h; exact prod_le_of_consistent _ _ hc
  · cases h

theorem setStrs_WF (p p' : Param) (data : List Bytes) (dims : List Nat) (h : p.setStrs data dims = .ok p') : ParamWF p' := by
  unfold Param.setStrs at h
  split at h
  · rename_i hc; cases h
    unfold ParamWF
    have hne := effDims_ne_nil data.length dims
    have : (maxLen data :: effDims data.length dims).length ≠ 1 := by
      cases he : effDims data.length dims with
      | nil => exact absurd he hne
      | cons a t => simp
    simp only [this, if_false, List.drop_succ_cons, List.drop_zero]
    exact prod_le_of_consistent _ _ hc
  · cases h

/-! ### well-formedness is an invariant of every history, so the writer never indexes out of range on a reachable object -/

/-- every parameter of the tree is well-formed -/
def WFs (gs : List Group) : Prop := ∀ g ∈ gs, ∀ p ∈ g.params, ParamWF p

theorem mem_modify {α} (l : List α) (i : Nat) (f : α → α) (x : α) (h : x ∈ l.modify i f) : x ∈ l ∨ ∃ y ∈ l, x = f y := by
  induction l generalizing i with
  | nil => simp at h
  | cons a t ih =>
    cases i with
    | zero =>
      simp only [List.modify_zero_cons, List.mem_cons] at h
      rcases h with h | h
      · exact Or.inr ⟨a, by simp, h⟩
      · exact Or.inl (by simp [h])
    | succ j =>
      simp only [List.modify_succ_cons, List.mem_cons] at h
      rcases h with h | h
      · exact Or.inl (by simp [h])
      · rcases ih j h with h1 | ⟨y, hy, rfl⟩
        · exact Or.inl (by simp [h1])
        · exact Or.inr ⟨y, by simp [hy], rfl⟩

theorem mem_set {α} (l : List α) (i : Nat) (a x : α) (h : x ∈ l.set i a) : x ∈ l ∨ x = a := by
  rcases List.mem_or_eq_of_mem_set h with h | h
  · exact Or.inl h
  · exact Or.inr h

theorem modParam_WF (gs : List Group) (gi pi : Nat) (f : Param → Param) (h : WFs gs) (hf : ∀ p, ParamWF (f p)) :
    WFs (modParam gs gi pi f) := by
  intro g hg p hp
  unfold modParam at hg
  rcases mem_modify _ _ _ _ hg with hg | ⟨g0, hg0, rfl⟩
  · exact h g hg p hp
  · simp only at hp
    rcases mem_modify _ _ _ _ hp with hp | ⟨p0, _, rfl⟩
    · exact h g0 hg0 p hp
    · exact hf p0

theorem setInts!_WF (p : Param) (v : List Int) : ParamWF (p.setInts! v) := by
  unfold ParamWF Param.setInts!; simp
theorem setFloats!_WF (p : Param) (v : List UInt32) : ParamWF (p.setFloats! v) := by
  unfold ParamWF Param.setFloats!; simp
theorem setStrs!_WF (p : Param) (v : List Bytes) : ParamWF (p.setStrs! v) := by
  unfold ParamWF Param.setStrs!; simp

theorem init_WF : WFs C3D.init.groups := by
  intro g hg p hp
  simp only [C3D.init, defaultGroups, List.mem_cons, List.not_mem_nil, or_false] at hg
  rcases hg with rfl | rfl | rfl <;> simp only [List.mem_cons, List.not_mem_nil, or_false] at hp <;>
    rcases hp with rfl | rfl | rfl | rfl | rfl | rfl | rfl | rfl | rfl | rfl <;> simp [ParamWF, hasSize]

theorem modIfPresent_WF (gs : List Group) (g p : Bytes) (gi : Nat) (f : Param → Param) (h : WFs gs) (hf : ∀ p, ParamWF (f p)) :
    WFs (modIfPresent gs g p gi f) := by
  unfold modIfPresent; split
  · exact modParam_WF _ _ _ _ h hf
  · exact h

theorem updatePointParams_WF (gs : List Group) (frames : List Frame) (np : List Bytes) (h : WFs gs) :
    (updatePointParams gs frames np).All WFs := by
  unfold updatePointParams
  refine Outcome.all_andThen h fun ⟨gP, iF⟩ _ => ?_
  refine Outcome.all_andThen h fun fr _ => ?_
  simp only
  have h1 : WFs (if frames.length ≠ intToU64 fr then modParam gs gP iF (·.setInts! [u64ToI32 frames.length]) else gs) := by
    split
    · exact modParam_WF _ _ _ _ h (fun p => setInts!_WF p _)
    · exact h
  generalize (if frames.length ≠ intToU64 fr then modParam gs gP iF (·.setInts! [u64ToI32 frames.length]) else gs) = g1 at h1
  refine Outcome.all_andThen h1 fun oldLabels _ => ?_
  refine Outcome.all_andThen h1 fun used _ => ?_
  refine Outcome.all_ite _ (fun _ => ?_) (fun _ => h1)
  refine Outcome.all_andThen h1 fun ⟨_, iUsed⟩ _ => ?_
  simp only
  have h2 := modParam_WF g1 gP iUsed (·.setInts! [u64ToI32 (pointNames frames oldLabels np).length]) h1 (fun p => setInts!_WF p _)
  refine Outcome.all_andThen h2 fun ⟨_, iL⟩ _ => ?_
  simp only
  exact modIfPresent_WF _ _ _ _ _ (modIfPresent_WF _ _ _ _ _ (modParam_WF _ _ _ _ h2 (fun p => setStrs!_WF p _)) (fun p => setStrs!_WF p _))
    (fun p => setStrs!_WF p _)

theorem updateAnalogParams_WF (gs : List Group) (frames : List Frame) (na : List Bytes) (h : WFs gs) :
    (updateAnalogParams gs frames na).All WFs := by
  unfold updateAnalogParams
  refine Outcome.all_andThen h fun gA _ => ?_
  refine Outcome.all_andThen h fun oldA _ => ?_
  refine Outcome.all_andThen h fun aused _ => ?_
  refine Outcome.all_ite _ (fun _ => ?_) (fun _ => h)
  refine Outcome.all_andThen h fun ⟨_, iUsed⟩ _ => ?_
  simp only
  have h1 := modParam_WF gs gA iUsed (·.setInts! [u64ToI32 (channelNames frames oldA na).length]) h (fun p => setInts!_WF p _)
  refine Outcome.all_andThen h1 fun ⟨_, iL⟩ _ => ?_
  simp only
  have h3 := modIfPresent_WF _ ANALOG DESCRIPTIONS gA (·.setStrs! ((channelNames frames oldA na).map fun _ => []))
    (modParam_WF _ gA iL (·.setStrs! (channelNames frames oldA na)) h1 (fun p => setStrs!_WF p _)) (fun p => setStrs!_WF p _)
  refine Outcome.all_andThen h3 fun ⟨_, iS⟩ _ => ?_
  refine Outcome.all_andThen h3 fun scales _ => ?_
  simp only
  have h4 := modParam_WF _ gA iS (·.setFloats! (scales ++ List.replicate ((channelNames frames oldA na).length - scales.length) 0x3F800000)) h3
    (fun p => setFloats!_WF p _)
  refine Outcome.all_andThen h4 fun ⟨_, iO⟩ _ => ?_
  refine Outcome.all_andThen h4 fun offs _ => ?_
  simp only
  have h5 := modParam_WF _ gA iO (·.setInts! (offs ++ List.replicate ((channelNames frames oldA na).length - offs.length) 0)) h4
    (fun p => setInts!_WF p _)
  split
  · refine Outcome.all_andThen h5 fun units _ => ?_
    exact modParam_WF _ _ _ _ h5 (fun p => setStrs!_WF p _)
  · exact h5

theorem updateHeader_groups (F : FloatOps) (s : C3D) (P : List Group → Prop) (h : P s.groups) :
    (updateHeader F s).All (fun c => P c.groups) := by
  unfold updateHeader
  cases updateHeaderH F s.groups s.frames s.hdr with
  | ok a => exact h
  | throw e l => exact h
  | ub u => trivial

theorem updateParameters_WF (F : FloatOps) (s : C3D) (np na : List Bytes) (h : WFs s.groups) :
    (updateParameters F s np na).All (fun c => WFs c.groups) := by
  unfold updateParameters
  refine Outcome.all_ite _ (fun _ => h) (fun _ => ?_)
  refine Outcome.all_ite _ (fun _ => h) (fun _ => ?_)
  refine Outcome.all_bind (Q := fun c => WFs c.groups) ?_ (fun _ x => x) (fun c hc => updateHeader_groups F c WFs hc)
  refine Outcome.all_lift (Q := WFs) ?_ (fun _ x => x)
  exact Outcome.all_bind (updatePointParams_WF _ _ _ h) (fun _ x => x) (fun g hg => updateAnalogParams_WF g _ _ hg)

theorem insertInto_WF (gs1 gs' : List Group) (gn : Bytes) (p : Param) (h1 : WFs gs1) (hp : ParamWF p)
    (hi : ((groupIdx gs1 gn).bind fun gi => (atIdx gs1 gi).bind fun g => (g.addParam p).bind fun g' => .ok (gs1.set gi g')) = .ok gs') :
    WFs gs' := by
  obtain ⟨gi, _, hi⟩ := Res.bind_ok_iff.mp hi
  obtain ⟨g, hg, hi⟩ := Res.bind_ok_iff.mp hi
  obtain ⟨g', hg', hi⟩ := Res.bind_ok_iff.mp hi
  cases hi
  have hgm : g ∈ gs1 := by
    unfold atIdx at hg
    split at hg
    · rename_i a ha; cases hg; exact List.mem_of_getElem? ha
    · cases hg
  intro x hx q hq
  rcases mem_set _ _ _ _ hx with hx | rfl
  · exact h1 x hx q hq
  · unfold Group.addParam at hg'
    split at hg'
    · cases hg'
    · split at hg'
      · cases hg'
        simp only at hq
        rcases mem_set _ _ _ _ hq with hq | rfl
        · exact h1 g hgm q hq
        · exact hp
      · cases hg'
        simp only [List.mem_append, List.mem_cons, List.not_mem_nil, or_false] at hq
        rcases hq with hq | rfl
        · exact h1 g hgm q hq
        · exact hp

theorem WFs_append_empty (gs : List Group) (gn : Bytes) (h : WFs gs) : WFs (gs ++ [({ name := gn } : Group)]) := by
  intro g hg q hq
  simp only [List.mem_append, List.mem_cons, List.not_mem_nil, or_false] at hg
  rcases hg with hg | rfl
  · exact h g hg q hq
  · simp at hq

theorem insertParam_WF (gs gs' : List Group) (gn : Bytes) (p : Param) (h : WFs gs) (hp : ParamWF p)
    (hi : insertParam gs gn p = .ok gs') : WFs gs' := by
  unfold insertParam at hi
  cases hgi : groupIdx gs gn with
  | ok a => rw [hgi] at hi; exact insertInto_WF gs gs' gn p h hp hi
  | throw e => rw [hgi] at hi; exact insertInto_WF _ gs' gn p (WFs_append_empty gs gn h) hp hi
  | ub k => rw [hgi] at hi; exact insertInto_WF _ gs' gn p (WFs_append_empty gs gn h) hp hi

/-- ONE STEP: whatever the operation and its outcome (success or refusal), a well-formed parameter tree stays well-formed,
    provided a parameter handed to `parameter()` is itself well-formed (what the typed setters guarantee: `set*_WF`) -/
theorem step_preserves_WF (F : FloatOps) (s : C3D) (op : Op) (h : WFs s.groups)
    (hp : ∀ g p, op = .parameter g p → ParamWF p) : (step F s op).All (fun c => WFs c.groups) := by
  cases op with
  | parameter g p =>
    simp only [step, C3D.parameter]
    refine Outcome.all_ite _ (fun _ => h) (fun _ => ?_)
    refine Outcome.all_ite _ (fun _ => h) (fun _ => ?_)
    refine Outcome.all_andThen h fun gs' hgs' => ?_
    exact updateHeader_groups F _ WFs (insertParam_WF _ _ _ _ h (hp g p rfl) hgs')
  | lockGroup g =>
    simp only [step, C3D.setGroupLock]
    refine Outcome.all_andThen h fun gi _ => ?_
    intro x hx q hq
    rcases mem_modify _ _ _ _ hx with hx | ⟨y, hy, rfl⟩
    · exact h x hx q hq
    · exact h y hy q hq
  | unlockGroup g =>
    simp only [step, C3D.setGroupLock]
    refine Outcome.all_andThen h fun gi _ => ?_
    intro x hx q hq
    rcases mem_modify _ _ _ _ hx with hx | ⟨y, hy, rfl⟩
    · exact h x hx q hq
    · exact h y hy q hq
  | frame f idx =>
    simp only [step, C3D.frame]
    refine Outcome.all_andThen h fun used _ => ?_
    refine Outcome.all_ite _ (fun _ => h) (fun _ => ?_)
    refine Outcome.all_andThen h fun labels _ => ?_
    refine Outcome.all_ite _ (fun _ => h) (fun _ => ?_)
    refine Outcome.all_andThen h fun pz _ => ?_
    refine Outcome.all_ite _ (fun _ => h) (fun _ => ?_)
    refine Outcome.all_andThen h fun az _ => ?_
    refine Outcome.all_ite _ (fun _ => h) (fun _ => ?_)
    refine Outcome.all_andThen h fun aused _ => ?_
    refine Outcome.all_ite _ (fun _ => h) (fun _ => ?_)
    refine Outcome.all_ite _ (fun _ => h) (fun _ => ?_)
    refine Outcome.all_andThen h fun frames' _ => ?_
    exact updateParameters_WF F _ _ _ h
  | point n =>
    simp only [step, C3D.point]
    split
    · unfold C3D.pointCols
      refine Outcome.all_ite _ (fun _ => h) (fun _ => ?_)
      split
      · exact h
      · refine Outcome.all_ite _ (fun _ => h) (fun _ => ?_)
        refine Outcome.all_andThen h fun labels _ => ?_
        split
        · exact h
        · exact updateParameters_WF F _ _ _ h
    · exact updateParameters_WF F _ _ _ h
  | pointCols fs =>
    simp only [step, C3D.pointCols]
    refine Outcome.all_ite _ (fun _ => h) (fun _ => ?_)
    split
    · exact h
    · refine Outcome.all_ite _ (fun _ => h) (fun _ => ?_)
      refine Outcome.all_andThen h fun labels _ => ?_
      split
      · exact h
      · exact updateParameters_WF F _ _ _ h
  | analog n =>
    simp only [step, C3D.analog]
    split
    · unfold C3D.analogCols
      refine Outcome.all_ite _ (fun _ => h) (fun _ => ?_)
      split
      · exact h
      · refine Outcome.all_ite _ (fun _ => h) (fun _ => ?_)
        split
        · exact h
        · refine Outcome.all_ite _ (fun _ => h) (fun _ => ?_)
          refine Outcome.all_andThen h fun labels _ => ?_
          simp only
          split
          · exact h
          · exact updateParameters_WF F _ _ _ h
    · exact updateParameters_WF F _ _ _ h
  | analogCols fs =>
    simp only [step, C3D.analogCols]
    refine Outcome.all_ite _ (fun _ => h) (fun _ => ?_)
    split
    · exact h
    · refine Outcome.all_ite _ (fun _ => h) (fun _ => ?_)
      split
      · exact h
      · refine Outcome.all_ite _ (fun _ => h) (fun _ => ?_)
        refine Outcome.all_andThen h fun labels _ => ?_
        split
        · exact h
        · exact updateParameters_WF F _ _ _ h

/-- the parameters handed to `parameter()` along a history are well-formed -/
def ParamsWF : List Op → Prop
  | [] => True
  | op :: rest => (∀ g p, op = .parameter g p → ParamWF p) ∧ ParamsWF rest

/-- EVERY HISTORY: the parameter tree of every state reachable from a new object (successful and refused calls alike) is
    well-formed -/
theorem reach_WF (F : FloatOps) (ops : List Op) (s : C3D) (h : WFs s.groups) (hp : ParamsWF ops) :
    WFs (runOps F s ops).groups := by
  induction ops generalizing s with
  | nil => exact h
  | cons op rest ih =>
    unfold runOps
    have hs := step_preserves_WF F s op h hp.1
    cases hst : step F s op with
    | ok s' => rw [hst] at hs; exact ih s' hs hp.2
    | throw e l => rw [hst] at hs; exact ih l hs hp.2
    | ub k => exact h

/-- ... hence SAVING ANY REACHABLE OBJECT never indexes a value vector out of range -/
theorem reachable_write_noUB (F : FloatOps) (ops : List Op) (hp : ParamsWF ops) : (runOps F C3D.init ops).write.NoUB :=
  write_noUB _ (reach_WF F ops C3D.init init_WF hp)

end Ezc3d.C13
