import Ezc3dVerif.Properties.C12
/-
  C17 — content at the format's limits survives; beyond them saving refuses (the part that is logic:
  each capacity limit is exactly the range on which the field's writer and reader are inverse, and one step
  beyond it they are not — so the limits the check sweeps are the right ones, and the beyond-limit
  truncation recorded as known findings is what the code computes).
-/
namespace Ezc3d.C17
open C12

/-- names: 0..127 characters survive the signed length byte -/
theorem name_length_at_limit (n : Nat) (h : n ≤ 127) : hex2int [low8 (n : Int)] = n :=
  low8_read _ (by omega) (by omega)

/-- a locked name (negative length) of 1..128 characters survives too -/
theorem locked_name_length (n : Nat) (h1 : 1 ≤ n) (h2 : n ≤ 128) : hex2int [low8 (-(n : Int))] = -(n : Int) :=
  low8_read _ (by omega) (by omega)

/-- 128..255 characters: the length byte reads back negative, i.e. as a LOCKED name of 256-n characters -/
theorem name_length_beyond (n : Nat) (h1 : 128 ≤ n) (h2 : n ≤ 255) : hex2int [low8 (n : Int)] = (n : Int) - 256 := by
  unfold low8
  have hlo : ((n : Int) % 256).toNat = n := by omega
  rw [hex2int_1, hlo, ofNat_toNat _ (by omega)]
  split <;> omega

/-- descriptions, dimension entries, dimension counts: 0..255 survive the unsigned byte -/
theorem byte_field_at_limit (n : Nat) (h : n ≤ 255) : hex2uint [low8N n] = n := low8N_read n (by omega)

/-- … 256 + k is written as k -/
theorem byte_field_beyond (k : Nat) (h : k ≤ 255) : hex2uint [low8N (256 + k)] = k := by
  unfold low8N low8
  have : (((256 + k : Nat) : Int) % 256).toNat = k := by omega
  rw [this, hex2uint_1, ofNat_toNat _ (by omega)]

/-- record offsets and header words: 0..65535 survive the 16-bit field -/
theorem word_field_at_limit (n : Nat) (h : n ≤ 65535) : hex2uint (le16N n) = n := le16N_read n (by omega)

/-- integer parameter values: exactly the signed 16-bit range survives -/
theorem int_value_at_limit (v : Int) (h1 : -32768 ≤ v) (h2 : v ≤ 32767) : hex2int (le16 v) = v :=
  le16_read v h1 (by omega)

theorem int_value_beyond (v : Int) (h1 : 32768 ≤ v) (h2 : v ≤ 65535) : hex2int (le16 v) = v - 65536 := by
  unfold le16
  have hlo : (v % 256).toNat < 256 := by omega
  have hhi : ((v / 256) % 256).toNat < 256 := by omega
  rw [hex2int_2, ofNat_toNat _ hlo, ofNat_toNat _ hhi]
  split <;> omega

/-- 32767 frames: POINT:FRAMES (an int parameter written on 16 bits) reads back as the frame count;
    32768 reads back as a negative number, i.e. an enormous size_t -/
theorem frames_at_limit : intToU64 (hex2int (le16 (u64ToI32 32767))) = 32767 := by decide
theorem frames_beyond : intToU64 (hex2int (le16 (u64ToI32 32768))) = 18446744073709518848 := by decide

/-- 255 parameter blocks fit the 8-bit block count; 256 wraps to 0 -/
theorem blocks_at_limit : hex2uint [low8 255] = 255 ∧ hex2uint [low8 256] = 0 := by decide

end Ezc3d.C17
