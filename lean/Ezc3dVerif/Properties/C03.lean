import Ezc3dVerif.Model.Write
/-
  C03 — saved files are valid, self-consistent C3D (theorems about the model's writer; the check compares
  the library's bytes with the model's on every save and decodes them with the independent Spec decoder).
  The padding / block-count arithmetic is proved for an arbitrary section length, i.e. for all 512
  residues at once.
-/
namespace Ezc3d.C03

/-- the zero padding after the last record: between 1 and 512 bytes (so the terminator is always there)
    and it ends exactly on a block boundary - for every position, hence every residue mod 512 -/
theorem padLen_spec (pos : Nat) : 1 ≤ padLen pos ∧ padLen pos ≤ 512 ∧ (pos + padLen pos) % 512 = 0 := by
  unfold padLen
  have : pos % 512 < 512 := Nat.mod_lt _ (by decide)
  refine ⟨by omega, by omega, ?_⟩
  omega

/-- the section the writer produces: prologue, records, then only zeros (terminator + padding) up to a
    block boundary; the second byte is the 0x50 key, the fourth the processor type -/
theorem paramSection_shape (ph : PHeader) (gs : List Group) (base : Nat) (b : Bytes)
    (h : writeParamSection ph gs base = .ok b) :
    ∃ (gb : Bytes) (blocks : UInt8) (npad : Nat),
      b = [low8N ph.start, 0x50, blocks, 84] ++ gb ++ List.replicate npad 0 ∧
      1 ≤ npad ∧ npad ≤ 512 ∧ (base + b.length) % 512 = 0 := by
  unfold writeParamSection at h
  cases hg : writeGroupList gs 0 with
  | throw e => simp [hg] at h
  | ub k => simp [hg] at h
  | ok r =>
    obtain ⟨gb, slot⟩ := r
    simp only [hg, Res.bind_ok] at h
    cases h
    obtain ⟨h1, h2, h3⟩ := padLen_spec (base + 4 + gb.length)
    cases slot with
    | none =>
      refine ⟨gb, _, padLen (base + 4 + gb.length), rfl, h1, h2, ?_⟩
      simp only [List.length_append, List.length_cons, List.length_nil, List.length_replicate]
      have : base + (0 + 1 + 1 + 1 + 1 + gb.length + padLen (base + 4 + gb.length)) = base + 4 + gb.length + padLen (base + 4 + gb.length) := by omega
      rw [this]; exact h3
    | some o =>
      refine ⟨gb.set o _, _, padLen (base + 4 + gb.length), rfl, h1, h2, ?_⟩
      simp only [List.length_append, List.length_cons, List.length_nil, List.length_replicate, List.length_set]
      have : base + (0 + 1 + 1 + 1 + 1 + gb.length + padLen (base + 4 + gb.length)) = base + 4 + gb.length + padLen (base + 4 + gb.length) := by omega
      rw [this]; exact h3

/-- the block count written in the prologue is the exact number of 512-byte blocks of the section,
    for every section length (every residue), as long as it fits the 8-bit field -/
theorem blockCount_exact (n : Nat) (hn : 0 < n) (hal : n % 512 = 0) :
    ((n - 4) / 512 + (if (n - 4) % 512 > 0 then 1 else 0)) = n / 512 := by
  have h4 : 4 ≤ n := by omega
  have : (n - 4) % 512 = 508 := by omega
  simp [this]
  omega

/-- every parameter record: name length (negative = locked), group id, upper-cased name, then the
    offset to the next record, which is exactly 2 + the number of bytes that follow it -/
theorem paramRecord_offset (p : Param) (gid : Int) (ip : Bool) (b : Bytes) (slot : Option Nat) (h : p.write gid ip = .ok (b, slot)) :
    ∃ rest : Bytes,
      b = [low8 (if p.locked then -(p.name.length : Int) else p.name.length), low8 gid] ++ toUpper p.name
            ++ le16 (2 + (rest.length : Int)) ++ rest := by
  unfold Param.write at h
  cases hd : p.writeData ip with
  | throw e => simp [hd] at h
  | ub k => simp [hd] at h
  | ok r =>
    obtain ⟨vals, sl⟩ := r
    simp only [hd, Res.bind_ok] at h
    cases h
    refine ⟨[low8 p.type.code] ++ dimBytes p.dims ++ (vals ++ [low8N p.desc.length] ++ p.desc), ?_⟩
    have e : (2 : Int) + (([low8 p.type.code] ++ dimBytes p.dims).length : Int) + ((vals ++ [low8N p.desc.length] ++ p.desc).length : Int)
        = 2 + (([low8 p.type.code] ++ dimBytes p.dims ++ (vals ++ [low8N p.desc.length] ++ p.desc)).length : Int) := by
      simp only [List.length_append]
      push_cast; omega
    rw [e]
    simp only [List.append_assoc]

/-- names are stored upper-case: no byte of a stored name is a lower-case ASCII letter -/
theorem toUpper_no_lower (s : Bytes) : ∀ b ∈ toUpper s, ¬ (97 ≤ b ∧ b ≤ 122) := by
  intro b hb
  unfold toUpper at hb
  rw [List.mem_map] at hb
  obtain ⟨a, _, rfl⟩ := hb
  unfold upperByte
  split
  · rename_i h
    intro ⟨h1, h2⟩
    have ha1 : 97 ≤ a.toNat := by simpa using UInt8.le_iff_toNat_le.mp h.1
    have ha2 : a.toNat ≤ 122 := by simpa using UInt8.le_iff_toNat_le.mp h.2
    have h32 : (32 : UInt8) ≤ a := UInt8.le_iff_toNat_le.mpr (by simp; omega)
    have : (a - 32).toNat = a.toNat - 32 := by rw [UInt8.toNat_sub_of_le _ _ h32]; rfl
    have hh : 97 ≤ (a - 32).toNat := by simpa using UInt8.le_iff_toNat_le.mp h1
    omega
  · rename_i h; exact h

theorem toUpper_length (s : Bytes) : (toUpper s).length = s.length := by simp [toUpper]
theorem toUpper_idem (s : Bytes) : toUpper (toUpper s) = toUpper s := by
  unfold toUpper
  rw [List.map_map]
  apply List.map_congr_left
  intro a _
  simp only [Function.comp]
  unfold upperByte
  split
  · rename_i h
    have ha1 : 97 ≤ a.toNat := by simpa using UInt8.le_iff_toNat_le.mp h.1
    have ha2 : a.toNat ≤ 122 := by simpa using UInt8.le_iff_toNat_le.mp h.2
    have h32 : (32 : UInt8) ≤ a := UInt8.le_iff_toNat_le.mpr (by simp; omega)
    have e : (a - 32).toNat = a.toNat - 32 := by rw [UInt8.toNat_sub_of_le _ _ h32]; rfl
    have : ¬ (97 ≤ a - 32 ∧ a - 32 ≤ 122) := by
      intro ⟨h1, _⟩
      have : 97 ≤ (a - 32).toNat := by simpa using UInt8.le_iff_toNat_le.mp h1
      omega
    simp [this]
  · rename_i h; simp [h]

/-! ### the header record -/

def HdrWF (h : Header) : Prop := h.evTimes.length = 18 ∧ h.evDisplay.length = 9 ∧ h.evLabels.length = 18

theorem flatten_map_len {α} (f : α → Bytes) (k : Nat) (hf : ∀ a, (f a).length = k) (l : List α) :
    ((l.map f).flatten).length = k * l.length := by
  induction l with
  | nil => simp
  | cons a t ih => simp [hf, ih, Nat.mul_add]; omega

theorem flatten_replicate_len (k n : Nat) (b : Bytes) (hb : b.length = k) : ((List.replicate n b).flatten).length = k * n := by
  induction n with
  | zero => simp
  | succ m ih => rw [List.replicate_succ, List.flatten_cons, List.length_append, ih, hb]; rw [Nat.mul_succ]; omega

theorem label4_length (s : Bytes) : (label4 s).length = 4 := by
  unfold label4
  simp
  have : (s.take 4).length ≤ 4 := by simp; omega
  simp at this ⊢
  omega

/-- the header is exactly one 512-byte block -/
theorem header_length (h : Header) (ds : Int) (hw : HdrWF h) : (h.write ds).length = 512 := by
  obtain ⟨h1, h2, h3⟩ := hw
  unfold Header.write
  simp only [List.length_append, List.length_cons, List.length_nil]
  rw [flatten_map_len f32le 4 (fun _ => rfl), flatten_map_len le16N 2 (fun _ => rfl),
      flatten_map_len label4 4 label4_length, h1, h2, h3]
  have e1 : ((List.replicate 135 (le16 h.empty1)).flatten).length = 270 := flatten_replicate_len 2 135 _ rfl
  have e2 : ((List.replicate 22 (le16 h.empty4)).flatten).length = 44 := flatten_replicate_len 2 22 _ rfl
  rw [e1, e2]
  rfl

/-- data section: 4 floats per point, one per analog sample, frame after frame -/
theorem frame_length (f : Frame) : f.write.length = 16 * f.pts.length + 4 * (f.subs.map List.length).sum := by
  unfold Frame.write
  rw [List.length_append, flatten_map_len Point.write 16 (by intro p; rfl)]
  congr 1
  induction f.subs with
  | nil => simp
  | cons sf t ih =>
    simp only [List.map_cons, List.flatten_cons, List.length_append, List.sum_cons, Nat.mul_add]
    rw [ih, flatten_map_len (fun c : Channel => f32le c.v) 4 (fun _ => rfl)]

/-- the file: one header block, the parameter section (whole blocks), then the frames; the header's
    data-start word is the 1-based block that follows the section - for every section length -/
theorem file_layout (s : C3D) (b : Bytes) (hw : HdrWF s.hdr) (h : s.write = .ok b) :
    ∃ ps : Bytes, writeParamSection s.ph s.groups 512 = .ok ps ∧ ps.length % 512 = 0 ∧
      b = s.hdr.write (((512 + ps.length : Nat) : Int) / 512 + 1) ++ ps ++ writeData s.frames ∧
      b.length = 512 + ps.length + (writeData s.frames).length := by
  unfold C3D.write at h
  cases hp : writeParamSection s.ph s.groups 512 with
  | throw e => simp [hp] at h
  | ub k => simp [hp] at h
  | ok ps =>
    simp only [hp, Res.bind_ok] at h
    obtain ⟨gb, blk, npad, _, _, _, hal⟩ := paramSection_shape s.ph s.groups 512 ps hp
    have hb : b = s.hdr.write (((512 + ps.length : Nat) : Int) / 512 + 1) ++ ps ++ writeData s.frames :=
      (Res.ok.inj h).symm
    have hl := header_length s.hdr (((512 + ps.length : Nat) : Int) / 512 + 1) hw
    refine ⟨ps, rfl, by omega, hb, ?_⟩
    generalize s.hdr.write (((512 + ps.length : Nat) : Int) / 512 + 1) = hbytes at hb hl
    rw [hb, List.length_append, List.length_append, hl]

end Ezc3d.C03
