import Ezc3dVerif.Properties.C05
import Ezc3dVerif.Proofs.InsertLookup
/-
  C05 (continued) — the agreement is an INVARIANT OF EVERY HISTORY. `C05.mutator_agree` establishes it after each frame / point /
  channel mutator; here: lock toggles keep it, and `parameter()` — set-rate and add-parameter included — keeps it as long as the
  call does not overwrite one of the three count parameters (POINT:USED, POINT:FRAMES, ANALOG:USED: the recorded finding) and
  leaves the mandatory parameters in place. `reach_Inv`: every state of every such history, from a new object, agrees.
-/
namespace Ezc3d.C05
open N

/-- the agreement plus the range fact that keeps the library's products from wrapping -/
structure Inv (F : FloatOps) (s : C3D) : Prop where
  agree : Agree F s
  ausmall : ∀ au, int0 s.groups ANALOG USED = .ok au → intToU64 au < two31

theorem inv_of_updateParameters (F : FloatOps) (s s' : C3D) (np na ol oa : List Bytes)
    (hol : strsOf s.groups POINT LABELS = .ok ol) (hoa : strsOf s.groups ANALOG LABELS = .ok oa)
    (hi : HdrInv s.hdr) (hF : ∀ a b, F.ratioNat a b < two32) (hs : Small s.frames ol oa np na)
    (h : updateParameters F s np na = .ok s') : Inv F s' := by
  refine ⟨agree_of_updateParameters F s s' np na ol oa hol hoa hi hF hs h, ?_⟩
  obtain ⟨_, _, _, _, _, ⟨u, hu, huv⟩⟩ := updateParameters_post F s s' np na ol oa hol hoa hi hF hs.nfr hs.npt hs.nch hs.nsub h
  intro au hau
  rw [hu] at hau; cases hau
  rw [huv]; exact hs.nch

/-- lock toggles change no look-up -/
theorem lock_Inv (F : FloatOps) (s s' : C3D) (name : Bytes) (v : Bool) (hI : Inv F s) (h : s.setGroupLock name v = .ok s') : Inv F s' := by
  obtain ⟨gi, _, rfl⟩ := setGroupLock_ok_inv h
  have hg : ∀ g p, getParam (s.groups.modify gi fun x => { x with locked := v }) g p = getParam s.groups g p := getParam_lock s.groups gi v
  have hi0 : ∀ g p, int0 (s.groups.modify gi fun x => { x with locked := v }) g p = int0 s.groups g p := fun g p => int0_congr (hg g p)
  have hf0 : ∀ g p, float0 (s.groups.modify gi fun x => { x with locked := v }) g p = float0 s.groups g p := fun g p => float0_congr (hg g p)
  obtain ⟨⟨hp, hex, hnf, hu, hau⟩, hsm⟩ := hI
  refine ⟨⟨⟨?_, ?_, ?_, ?_, hp.subs⟩, hex, ?_, ?_, ?_⟩, ?_⟩
  · simp only [hi0]; exact hp.points
  · simp only [hf0]; exact hp.rate
  · simp only [hi0]; exact hp.analogs
  · simp only [hi0]; exact hp.nframes
  · simp only [hi0]; exact hnf
  · simp only [hi0]; exact hu
  · simp only [hi0]; exact hau
  · simp only [hi0]; exact hsm

/-- shape of a successful `parameter()` -/
theorem parameter_ok_inv {F : FloatOps} {s s' : C3D} {g : Bytes} {p : Param} (h : s.parameter F g p = .ok s') :
    ∃ gs' hd', insertParam s.groups g p = .ok gs' ∧ updateHeaderH F gs' s.frames s.hdr = .ok hd' ∧
      s' = { s with groups := gs', hdr := hd' } := by
  unfold C3D.parameter at h
  split at h; · cases h
  split at h; · cases h
  obtain ⟨gs', hgs', h⟩ := Res.andThen_ok_iff.mp h
  unfold updateHeader at h
  obtain ⟨hd', hhd', rfl⟩ := Outcome.lift_ok_iff.mp h
  exact ⟨gs', hd', hgs', hhd', rfl⟩

/-- `parameter()` — set-rate, add-parameter, any edit that is not one of the three count parameters — keeps the invariant -/
theorem parameter_Inv (F : FloatOps) (s s' : C3D) (g : Bytes) (p : Param) (hI : Inv F s)
    (hF : ∀ a b, F.ratioNat a b < two32)
    (hsub : ∀ f0 t, s.frames = f0 :: t → f0.subs.length < two32)
    (hM' : ∀ gs', insertParam s.groups g p = .ok gs' → Mand gs')
    (hc1 : ¬ (g = POINT ∧ p.name = USED)) (hc2 : ¬ (g = POINT ∧ p.name = FRAMES)) (hc3 : ¬ (g = ANALOG ∧ p.name = USED))
    (h : s.parameter F g p = .ok s') : Inv F s' := by
  obtain ⟨gs', hd', hins, hhd, rfl⟩ := parameter_ok_inv h
  have hM := hM' gs' hins
  have hPU : int0 gs' POINT USED = int0 s.groups POINT USED :=
    int0_congr (getParam_insertParam_other s.groups gs' g p POINT USED hins (fun ⟨a, b⟩ => hc1 ⟨a.symm, b.symm⟩))
  have hPF : int0 gs' POINT FRAMES = int0 s.groups POINT FRAMES :=
    int0_congr (getParam_insertParam_other s.groups gs' g p POINT FRAMES hins (fun ⟨a, b⟩ => hc2 ⟨a.symm, b.symm⟩))
  have hAU : int0 gs' ANALOG USED = int0 s.groups ANALOG USED :=
    int0_congr (getParam_insertParam_other s.groups gs' g p ANALOG USED hins (fun ⟨a, b⟩ => hc3 ⟨a.symm, b.symm⟩))
  obtain ⟨_, ga, _, hga, hgan⟩ := hM.group ANALOG USED _ mem_slots_AU
  obtain ⟨hp, hinv⟩ := updateHeaderH_post F gs' s.frames s.hdr hd' hI.agree.exact hF hsub
    (by intro au hau; rw [hAU] at hau; exact hI.ausmall au hau)
    (by intro ga' hga'; rw [hga] at hga'; cases hga'; exact hgan) hhd
  refine ⟨⟨hp, hinv, ?_, ?_, ?_⟩, ?_⟩
  · simp only [hPF]; exact hI.agree.nframes
  · simp only [hPU]; exact hI.agree.used
  · simp only [hAU]; exact hI.agree.aused
  · simp only [hAU]; exact hI.ausmall

/-- base case -/
theorem init_Inv (F : FloatOps) : Inv F C3D.init := by
  refine ⟨⟨⟨⟨0, by decide, rfl⟩, ⟨0, by decide, rfl⟩, ?_, ?_, ?_⟩, init_HdrInv, ⟨0, by decide, rfl⟩, ?_, ?_⟩, ?_⟩
  · intro h; exact absurd rfl h
  · intro h; exact absurd ⟨rfl, rfl⟩ h
  · intro f0 t h; cases h
  · intro f0 t h; cases h
  · intro f0 t sf0 r h; cases h
  · intro au hau
    have : int0 C3D.init.groups ANALOG USED = .ok 0 := by decide
    rw [this] at hau; cases hau; decide

/-- what a history has to respect for the invariant to be carried along: the mandatory parameters stay, the three count
    parameters are not overwritten by hand, sizes stay within the `int` range -/
def StepOK (F : FloatOps) (s : C3D) (op : Op) (s' : C3D) : Prop :=
  (∀ g p, op = .parameter g p →
      (∀ gs', insertParam s.groups g p = .ok gs' → Mand gs') ∧
      ¬ (g = POINT ∧ p.name = USED) ∧ ¬ (g = POINT ∧ p.name = FRAMES) ∧ ¬ (g = ANALOG ∧ p.name = USED) ∧
      (∀ f0 t, s.frames = f0 :: t → f0.subs.length < two32)) ∧
  (∀ ol oa np na, strsOf s.groups POINT LABELS = .ok ol → strsOf s.groups ANALOG LABELS = .ok oa →
      (np = [] ∨ ∃ n, op = .point n ∧ np = [rtrim n]) → (na = [] ∨ ∃ n, op = .analog n ∧ na = [rtrim n]) → Small s'.frames ol oa np na)

/-- ONE STEP of any kind -/
theorem step_Inv (F : FloatOps) (s s' : C3D) (op : Op) (hI : Inv F s) (hM : Mand s.groups) (hF : ∀ a b, F.ratioNat a b < two32)
    (hok : StepOK F s op s') (h : step F s op = .ok s') : Inv F s' := by
  obtain ⟨ol, hol⟩ := hM.strs POINT LABELS mem_slots_PL
  obtain ⟨oa, hoa⟩ := hM.strs ANALOG LABELS mem_slots_AL
  have hsm := fun np na h1 h2 => hok.2 ol oa np na hol hoa h1 h2
  cases op with
  | parameter g p =>
    obtain ⟨a, b, c, d, e⟩ := hok.1 g p rfl
    exact parameter_Inv F s s' g p hI hF e a b c d h
  | lockGroup g => exact lock_Inv F s s' g true hI h
  | unlockGroup g => exact lock_Inv F s s' g false hI h
  | frame f idx =>
    obtain ⟨fr, _, hup⟩ := frame_ok_inv h
    have hfr := updateParameters_frames hup
    exact inv_of_updateParameters F ({ s with frames := fr } : C3D) s' [] [] ol oa hol hoa hI.agree.exact hF
      (by rw [← hfr]; exact hsm [] [] (Or.inl rfl) (Or.inl rfl)) hup
  | pointCols fs =>
    obtain ⟨fr, hup⟩ := pointCols_ok_inv h
    have hfr := updateParameters_frames hup
    exact inv_of_updateParameters F ({ s with frames := fr } : C3D) s' [] [] ol oa hol hoa hI.agree.exact hF
      (by rw [← hfr]; exact hsm [] [] (Or.inl rfl) (Or.inl rfl)) hup
  | analogCols fs =>
    obtain ⟨fr, hup⟩ := analogCols_ok_inv h
    have hfr := updateParameters_frames hup
    exact inv_of_updateParameters F ({ s with frames := fr } : C3D) s' [] [] ol oa hol hoa hI.agree.exact hF
      (by rw [← hfr]; exact hsm [] [] (Or.inl rfl) (Or.inl rfl)) hup
  | point n =>
    simp only [step, C3D.point] at h
    split at h
    · obtain ⟨fr, hup⟩ := pointCols_ok_inv h
      have hfr := updateParameters_frames hup
      exact inv_of_updateParameters F ({ s with frames := fr } : C3D) s' [] [] ol oa hol hoa hI.agree.exact hF
        (by rw [← hfr]; exact hsm [] [] (Or.inl rfl) (Or.inl rfl)) hup
    · have hfr := updateParameters_frames h
      exact inv_of_updateParameters F s s' [rtrim n] [] ol oa hol hoa hI.agree.exact hF
        (by rw [← hfr]; exact hsm [rtrim n] [] (Or.inr ⟨n, rfl, rfl⟩) (Or.inl rfl)) h
  | analog n =>
    simp only [step, C3D.analog] at h
    split at h
    · obtain ⟨fr, hup⟩ := analogCols_ok_inv h
      have hfr := updateParameters_frames hup
      exact inv_of_updateParameters F ({ s with frames := fr } : C3D) s' [] [] ol oa hol hoa hI.agree.exact hF
        (by rw [← hfr]; exact hsm [] [] (Or.inl rfl) (Or.inl rfl)) hup
    · have hfr := updateParameters_frames h
      exact inv_of_updateParameters F s s' [] [rtrim n] ol oa hol hoa hI.agree.exact hF
        (by rw [← hfr]; exact hsm [] [rtrim n] (Or.inl rfl) (Or.inr ⟨n, rfl, rfl⟩)) h

/-- the side conditions along a whole history (refused calls leave the object as it was: C10) -/
def HistOK (F : FloatOps) : C3D → List Op → Prop
  | _, [] => True
  | s, op :: rest =>
    match step F s op with
    | .ok s' => StepOK F s op s' ∧ HistOK F s' rest
    | .throw _ _ => HistOK F s rest
    | .ub _ => True

/-- EVERY HISTORY: header, POINT/ANALOG parameters and stored data agree in every state reached from a new object — after
    every successful call, in any order of declare-point, declare-channel, set-rate, add-parameter, append / replace /
    extend-frame, add-column and lock toggles -/
theorem reach_Inv (F : FloatOps) (hF : ∀ a b, F.ratioNat a b < two32) (ops : List Op) (s : C3D) (hI : Inv F s) (hM : Mand s.groups)
    (hH : HistOK F s ops) : Inv F (runOk F s ops) ∧ Mand (runOk F s ops).groups := by
  induction ops generalizing s with
  | nil => exact ⟨hI, hM⟩
  | cons op rest ih =>
    unfold runOk
    unfold HistOK at hH
    cases hs : step F s op with
    | ok s' =>
      rw [hs] at hH
      simp only at hH ⊢
      have hM' : Mand s'.groups :=
        step_preserves_Mand F s s' op hM (fun g p hop gs' hg => ((hH.1.1 g p hop).1 gs' hg)) hs
      exact ih s' (step_Inv F s s' op hI hM hF hH.1 hs) hM' hH.2
    | throw e l =>
      rw [hs] at hH
      simp only at hH ⊢
      exact ih s hI hM hH
    | ub k => simp only; exact ⟨hI, hM⟩

theorem reach_Inv_init (F : FloatOps) (hF : ∀ a b, F.ratioNat a b < two32) (ops : List Op) (hH : HistOK F C3D.init ops) :
    Inv F (runOk F C3D.init ops) :=
  (reach_Inv F hF ops C3D.init (init_Inv F) init_Mand hH).1


/-- non-vacuity: the one-call history `point "P"` on a new object meets `HistOK`, so its final state agrees -/
example : Inv F1 (runOk F1 C3D.init [.point [80]]) := by
  apply reach_Inv_init F1 F1_ratio
  unfold HistOK
  cases hs : step F1 C3D.init (.point [80]) with
  | throw e l => simp only [HistOK]
  | ub k => trivial
  | ok s' =>
    have hfr : s'.frames = [] := by
      have := init_point_frames
      rw [hs] at this; exact this
    simp only [HistOK, and_true]
    refine ⟨fun g p hc => (by cases hc), ?_⟩
    intro ol oa np na hol hoa hnp hna
    have e1 : strsOf C3D.init.groups POINT LABELS = .ok [] := by decide
    have e2 : strsOf C3D.init.groups ANALOG LABELS = .ok [] := by decide
    rw [e1] at hol; cases hol
    rw [e2] at hoa; cases hoa
    rw [hfr]
    refine ⟨by decide, ?_, ?_, by intro f0 t hc; cases hc⟩
    · rcases hnp with rfl | ⟨n, _, rfl⟩
      · decide
      · show 1 < two31; decide
    · rcases hna with rfl | ⟨n, _, rfl⟩
      · decide
      · show 1 < two31; decide

end Ezc3d.C05
