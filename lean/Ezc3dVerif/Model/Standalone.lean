import Ezc3dVerif.Model.Containers
/-
  The parameter classes used on their own (`ezc3d::ParametersNS::Parameters`, `GroupNS::Group` are public, documented classes;
  `ezc3d::c3d` only hands out a const `Parameters`, so these entry points are not reachable through a c3d object):
  `Parameters::group(const Group&)` (Parameters.cpp:342-354) and the non-const accessors.
-/
namespace Ezc3d

/-- index of the LAST group whose name compares equal (the loop of `Parameters::group(g)` does not stop at the first) -/
def lastIdxAux (name : Bytes) : List Group → Nat → Option Nat → Option Nat
  | [], _, acc => acc
  | g :: rest, i, acc => lastIdxAux name rest (i + 1) (if g.name == name then some i else acc)

def lastGroupIdx (gs : List Group) (name : Bytes) : Option Nat := lastIdxAux name gs 0 none

/-- `_groups[i].parameter(p)` for each parameter of `g`, in order (an untyped one throws and leaves what was merged so far) -/
def mergeParams (gs : List Group) (i : Nat) : List Param → Outcome (List Group)
  | [] => .ok gs
  | p :: rest =>
    match gs[i]? with
    | none => .ub .vecIndex
    | some grp =>
      match grp.addParam p with
      | .ok grp' => mergeParams (gs.set i grp') i rest
      | .throw e => .throw e gs
      | .ub k => .ub k

/-- `Parameters::group(const Group& g)`: "If the group already exist, override and merge", else append -/
def Parameters.addGroup (gs : List Group) (g : Group) : Outcome (List Group) :=
  match lastGroupIdx gs g.name with
  | none => .ok (gs ++ [g])
  | some i => mergeParams gs i g.params

end Ezc3d
