import Ezc3dVerif.Model.Write
/-
  c3d::write against an operating system that may refuse to open the destination or stop accepting
  bytes (ezc3d.cpp:73-101 as of the fix: commits). Modelled libstdc++ behaviour: writes are buffered;
  every seek flushes the buffer; a flush the OS refuses sets badbit and every later operation on the
  stream is a no-op; close() flushes and sets failbit when that fails; c3d::write throws
  std::ios_base::failure when the stream could not be opened or has failed after close().
-/
namespace Ezc3d

/-- a destination: cannot be opened, or accepts at most `budget` bytes through write(2) -/
inductive Sink where
  | unopenable
  | accepts (budget : Nat)

/-- number of named groups and of parameters inside them: each record back-patches a 2-byte offset -/
def patchedRecords (gs : List Group) : Nat :=
  (gs.filter (fun g => g.name ≠ [])).foldl (fun n g => n + 1 + g.params.length) 0

/-- does the section contain a DATA_START slot that gets patched? -/
def hasDataStartSlot (gs : List Group) : Bool :=
  match writeGroupList gs 0 with
  | .ok (_, some _) => true
  | _ => false

/-- bytes handed to write(2) by a complete save: the file itself plus every back-patch
    (2 per record offset, 1 block count, 1 POINT:DATA_START if present, 2 header data-start word) -/
def writeCallBytes (s : C3D) (file : Bytes) : Nat :=
  file.length + 2 * patchedRecords s.groups + 1 + (if hasDataStartSlot s.groups then 1 else 0) + 2

/-- outcome of `c3d::write(path)`: normal return exactly when the sink took every byte -/
def C3D.saveTo (s : C3D) (sink : Sink) : Res Bool :=
  match sink with
  | .unopenable => .throw .ios_failure
  | .accepts budget =>
    s.write.bind fun file =>
    if writeCallBytes s file ≤ budget then .ok true else .throw .ios_failure

end Ezc3d
