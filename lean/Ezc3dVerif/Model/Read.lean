import Ezc3dVerif.Model.Api
import Ezc3dVerif.Model.Codec
/-
  Readers: ezc3d.cpp:38-59,89-247, Header.cpp:144-196, Parameters.cpp:165-210, Group.cpp:64-91,
  Parameter.cpp:137-215, Data.cpp:17-84 (as of the fix: commits), including the libstdc++ stream
  behaviour the code relies on: a short read delivers what is there and sets eofbit|failbit; once
  failbit is set every read and seek is a no-op and tellg() is -1; `readFile` zero-fills what a
  read did not deliver.
-/
namespace Ezc3d
open N

structure InStream where
  file : Bytes          -- whole file (for absolute seeks)
  len : Nat             -- its length (what seekg(0, end); tellg() reports)
  rest : Bytes          -- unread suffix
  pos : Nat             -- = tellg() while not failed
  failed : Bool := false
  eof : Bool := false   -- eofbit as seen by `file.eof()`
  deriving Repr

def InStream.open_ (file : Bytes) : InStream := { file := file, len := file.length, rest := file, pos := 0 }

/-- `tellg()` -/
def InStream.tell (s : InStream) : Int := if s.failed then -1 else s.pos

/-- `seekg(off, beg)`: clears eofbit; no-op when failbit is set; a negative target fails. -/
def InStream.seekBeg (s : InStream) (off : Int) : InStream :=
  if s.failed then { s with eof := false }
  else if off < 0 then { s with failed := true, eof := false }
  else { s with rest := s.file.drop off.toNat, pos := off.toNat, eof := false }

/-- the next `n` bytes zero-padded when fewer are left, the rest, and how many were really there -/
def takePad : Nat → Bytes → Bytes × Bytes × Nat
  | 0, l => ([], l, 0)
  | n + 1, [] => (List.replicate (n + 1) 0, [], 0)
  | n + 1, a :: l => let (x, r, k) := takePad n l; (a :: x, r, k + 1)

/-- `read(c, n)` followed by the zero fill of `readFile`: always yields exactly `n` bytes. -/
def InStream.read (s : InStream) (n : Nat) : Bytes × InStream :=
  if s.failed then (List.replicate n 0, s)
  else
    let (x, r, k) := takePad n s.rest
    if k = n then (x, { s with rest := r, pos := s.pos + n })
    else (x, { s with rest := [], pos := s.pos + k, failed := true, eof := true })

/-- bytes between the current position and the end of the file (0 once failed) -/
def InStream.remaining (s : InStream) : Nat := if s.failed then 0 else s.len - s.pos

def InStream.readUint (s : InStream) (n : Nat) : Nat × InStream :=
  let (b, s') := s.read n; (hex2uint b, s')
def InStream.readInt (s : InStream) (n : Nat) : Int × InStream :=
  let (b, s') := s.read n; (hex2int b, s')
def InStream.readFloat (s : InStream) : UInt32 × InStream :=
  let (b, s') := s.read 4; (f32OfBytes b, s')
def InStream.readString (s : InStream) (n : Nat) : Bytes × InStream :=
  let (b, s') := s.read n; (cstr b, s')

/-- exception escaping from a reader, or the value and the stream after it -/
abbrev RRes (α : Type) := Except (Sum Exc UBKind) (α × InStream)

def rthrow (e : Exc) : RRes α := .error (.inl e)
def rub (k : UBKind) : RRes α := .error (.inr k)

/-- `n` successive reads (a loop in the C++) -/
def readMany (f : InStream → α × InStream) : Nat → InStream → List α × InStream
  | 0, s => ([], s)
  | n + 1, s => let (a, s1) := f s; let (as, s2) := readMany f n s1; (a :: as, s2)

/-! ### sequential readers as composable steps (so that "a reader only moves forward" is compositional) -/

/-- a reading step: consumes from the stream, may throw -/
abbrev SR (α : Type) := InStream → RRes α

def SR.pure (a : α) : SR α := fun s => .ok (a, s)
def SR.bind (m : SR α) (f : α → SR β) : SR β := fun s =>
  match m s with
  | .ok (a, s') => f a s'
  | .error e => .error e
/-- a reader that cannot throw -/
def SR.lift (r : InStream → α × InStream) : SR α := fun s => .ok (r s)
def SR.throw (e : Exc) : SR α := fun _ => rthrow e
/-- look at the stream (for tellg / remaining bytes) without consuming -/
def SR.get : SR InStream := fun s => .ok (s, s)

/-! ### Header::read -/

/-- the leading-zero loop: read single bytes until a non-zero one; EOF → ios_failure -/
def skipZeros : Nat → InStream → Nat → RRes (Nat × Nat)
  | 0, _, _ => rub .nonTermination      -- fuel exhausted: cannot happen, the file is finite (C16.load_terminates)
  | fuel + 1, s, zeros =>
    let (v, s1) := s.readUint 1
    if s1.eof then rthrow .ios_failure
    else if v = 0 then skipZeros fuel s1 (zeros + 1)
    else .ok ((v, zeros + 1), s1)

def Header.read (s0 : InStream) : RRes Header :=
  let (pa0, s1) := (s0.seekBeg 0).readUint 1
  let first : RRes (Nat × Nat) := if pa0 ≠ 0 then .ok ((pa0, 0), s1) else skipZeros (s1.rest.length + 1) s1 0
  match first with
  | .error e => .error e
  | .ok ((pa, zeros), s2) =>
  let (ck, s3) := s2.readUint 1
  if ck ≠ 0x50 then rthrow .ios_failure else
  let (np, s4) := s3.readUint 2
  let (nam, s5) := s4.readUint 2
  let (ff, s6) := s5.readUint 2
  let (lf, s7) := s6.readUint 2
  let (gap, s8) := s7.readUint 2
  let (sc, s9) := s8.readInt 4
  let (ds, s10) := s9.readUint 2
  let (abf, s11) := s10.readUint 2
  let (rate, s12) := s11.readFloat
  let (e1, s13) := s12.readInt 270
  let (klp, s14) := s13.readUint 2
  let (fbk, s15) := s14.readUint 2
  let (fcp, s16) := s15.readUint 2
  let (nev, s17) := s16.readUint 2
  let (e2, s18) := s17.readInt 2
  let (times, s19) := readMany InStream.readFloat 18 s18
  let (disp, s20) := readMany (fun s => s.readUint 2) 9 s19
  let (e3, s21) := s20.readInt 2
  let (labels, s22) := readMany (fun s => s.readString 4) 18 s21
  let (e4, s23) := s22.readInt 44
  .ok ({ zeros := zeros, paramAddr := pa, checksum := ck, nbPoints := np, nbAnalogsMeas := nam,
         firstFrame := subU64 ff 1, lastFrame := subU64 lf 1, maxGap := gap, scale := sc, dataStart := ds,
         nbAnalogByFrame := abf, rate := rate, empty1 := e1, keyLabelPresent := klp,
         firstBlockKeyLabel := fbk, fourCharPresent := fcp, nbEvents := nev, empty2 := e2,
         evTimes := times, evDisplay := disp, empty3 := e3, evLabels := labels, empty4 := e4 }, s23)

/-! ### parameter records -/

/-- split `bytes` into consecutive cells of `w` bytes -/
def chunks (w : Nat) : Nat → Bytes → List Bytes
  | 0, _ => []
  | n + 1, b => b.take w :: chunks w n (b.drop w)

/-- one string value: the one-character strings of `_readMatrix` (a NUL gives an empty one)
    concatenated, then trailing spaces removed -/
def cellString (cell : Bytes) : Bytes := rtrim (cell.filter (· != 0))

/-- `int nextParamByteInFile = (int)((size_t)tellg + offsetNext - WORD)` -/
def nextPos (tell : Int) (offsetNext : Nat) : Int :=
  if offsetNext = 0 then 0 else u64ToI32 (intToU64 (tell + offsetNext - 2))

/-- element type from the type byte -/
def ptypeOf (len : Int) : Option PType :=
  if len = -1 then some .char else if len = 1 then some .byte
  else if len = 2 then some .int else if len = 4 then some .float else none

/-- the size check of `Parameter::read`, dimension by dimension: `none` = "larger than the file" -/
def sizeOk (remaining : Nat) (firstIsLength : Bool) : List Nat → Nat → Nat → Nat → Option Nat
  | [], _, _, nValues => some nValues
  | d :: rest, i, nBytes, nValues =>
    let nBytes' := if nBytes ≠ 0 then u64 (nBytes * d) else nBytes
    let nValues' := if nValues ≠ 0 ∧ (i > 0 ∨ !firstIsLength) then u64 (nValues * d) else nValues
    if nBytes' > remaining ∨ nValues' > remaining + 0xFFFF then none
    else sizeOk remaining firstIsLength rest (i + 1) nBytes' nValues'

/-- the values of a parameter: `dims.prod` elements of the announced type -/
def readValues (ty : PType) (dims : List Nat) (p0 : Param) : SR Param :=
  match ty with
  | .char => SR.lift fun s =>
      let (raw, s') := s.read dims.prod
      if dims.length = 1 then ({ p0 with strs := [cellString raw] }, s')
      else ({ p0 with strs := (chunks (dims.headD 0) (dims.drop 1).prod raw).map cellString }, s')
  | .byte => SR.lift fun s => let (v, s') := readMany (fun s => s.readInt 1) dims.prod s; ({ p0 with ints := v }, s')
  | .int => SR.lift fun s => let (v, s') := readMany (fun s => s.readInt 2) dims.prod s; ({ p0 with ints := v }, s')
  | .float => SR.lift fun s => let (v, s') := readMany InStream.readFloat dims.prod s; ({ p0 with floats := v }, s')
  | .none => SR.pure p0

/-- `Parameter::read(file, nbCharInName)`; returns the parameter and `nextParamByteInFile`. -/
def Param.read (nbCharInName : Int) : SR (Param × Int) :=
  SR.bind (SR.lift fun s => s.readString nbCharInName.natAbs) fun name =>
  SR.bind (SR.lift fun s => s.readUint 2) fun offsetNext =>
  SR.bind SR.get fun s2 =>
  SR.bind (SR.lift fun s => s.readInt 1) fun len =>
  match ptypeOf len with
  | none => SR.throw .ios_failure
  | some ty =>
  SR.bind (SR.lift fun s => s.readUint 1) fun nDim =>
  SR.bind (if nDim = 0 then SR.pure [1] else SR.lift (readMany (fun s => s.readUint 1) nDim)) fun dims =>
  SR.bind SR.get fun s5 =>
  let firstIsLength : Bool := ty == .char && decide (dims.length > 1)
  let nBytes0 : Nat := if dims.any (· == 0) then 0 else len.natAbs
  let nValues0 : Nat :=
    if (enum dims).any (fun (i, d) => d == 0 && (decide (i > 0) || !firstIsLength)) then 0 else 1
  match sizeOk s5.remaining firstIsLength dims 0 nBytes0 nValues0 with
  | none => SR.throw .ios_failure
  | some nValues =>
  let p0 : Param := { name := name, locked := nbCharInName < 0, type := ty, dims := dims }
  SR.bind (if nValues = 0 then SR.pure p0 else readValues ty dims p0) fun p1 =>
  SR.bind (SR.lift fun s => s.readUint 1) fun dl =>
  SR.bind (if dl ≠ 0 then SR.lift (fun s => let (d, s') := s.readString dl; ({ p1 with desc := d }, s')) else SR.pure p1) fun p2 =>
  SR.pure (p2, nextPos s2.tell offsetNext)

/-- `Group::read(file, nbCharInName)` on the existing group object `g` -/
def Group.read (g : Group) (nbCharInName : Int) : SR (Group × Int) :=
  SR.bind (SR.lift fun s => s.readString nbCharInName.natAbs) fun name =>
  SR.bind (SR.lift fun s => s.readUint 2) fun offsetNext =>
  SR.bind SR.get fun s2 =>
  SR.bind (SR.lift fun s => s.readUint 1) fun dl =>
  let g1 := { g with name := name, locked := nbCharInName < 0 }
  SR.bind (if dl ≠ 0 then SR.lift (fun s => let (d, s') := s.readString dl; ({ g1 with desc := d }, s')) else SR.pure g1) fun g2 =>
  SR.pure (g2, nextPos s2.tell offsetNext)

/-- make sure there are at least `n` groups (placeholders for unused ids) -/
def ensureGroups (gs : List Group) (n : Nat) : List Group := gs ++ List.replicate (n - gs.length) ({} : Group)

/-- the record loop of `Parameters::Parameters(c3d&)`. `fuel` bounds the number of iterations; running
    out of it is marked `nonTermination` and `C16.load_terminates` proves it never happens with the fuel
    `readParameters` supplies (every iteration that continues has consumed input). -/
def readRecords : Nat → InStream → Int → List Group → RRes (List Group)
  | 0, _, _, _ => rub .nonTermination
  | fuel + 1, s, next, gs =>
    if next = 0 then .ok (gs, s)
    else if s.tell ≠ next then rthrow .ios_failure
    else
      let (n, s1) := s.readInt 1
      if n = 0 then .ok (gs, s1)
      else
        let (id, s2) := s1.readInt 1
        let gs1 := ensureGroups gs id.natAbs
        if id < 0 then
          match gs1[id.natAbs - 1]? with
          | none => rthrow .out_of_range
          | some g =>
            match g.read n s2 with
            | .error e => .error e
            | .ok ((g', nx), s3) => readRecords fuel s3 nx (gs1.set (id.natAbs - 1) g')
        else
          match (if id = 0 then none else gs1[id.natAbs - 1]?) with
          | none => rthrow .out_of_range
          | some g =>
            match Param.read n s2 with
            | .error e => .error e
            | .ok ((p, nx), s3) =>
              match g.addParam p with
              | .ok g' => readRecords fuel s3 nx (gs1.set (id.natAbs - 1) g')
              | .throw e => rthrow e
              | .ub k => rub k

/-- the four bytes heading the parameter section, with the Qualisys patch (0, 0 → 1, 0x50) -/
def readPrologue (s0 : InStream) (h : Header) : PHeader × InStream :=
  let s1 := s0.seekBeg (u64ToI32 (u64 (512 * subU64 h.paramAddr 1 + h.zeros)))
  let (start, s2) := s1.readUint 1
  let (ck, s3) := s2.readUint 1
  let (nb, s4) := s3.readUint 1
  let (proc, s5) := s4.readUint 1
  let start' : Nat := if ck = 0 ∧ start = 0 then 1 else start
  let ck' : Nat := if ck = 0 ∧ start = 0 then 0x50 else ck
  ({ start := start', checksum := ck', nbBlocks := nb, processor := proc }, s5)

def readParameters (s0 : InStream) (h : Header) : RRes (PHeader × List Group) :=
  match readPrologue s0 h with
  | (ph, s5) =>
    if ph.checksum ≠ 0x50 then rthrow .ios_failure else
    match readRecords (2 * s5.rest.length + 2) s5 (s5.tell + u64ToI32 ph.start - 1) [] with
    | .error e => .error e
    | .ok (gs, s6) => .ok ((ph, gs), s6)

/-! ### Data -/

def decimal (n : Nat) : Bytes := (toString n).toUTF8.toList

def readPoint (labels : List Bytes) (i : Nat) (s : InStream) : Point × InStream :=
  let (x, s1) := s.readFloat
  let (y, s2) := s1.readFloat
  let (z, s3) := s2.readFloat
  let (r, s4) := s3.readFloat
  let nm := match labels[i]? with | some l => l | none => unlabeledPoint ++ decimal i
  ({ name := rtrim nm, x := x, y := y, z := z, r := r }, s4)

def readChannel (labels : List Bytes) (i : Nat) (s : InStream) : Channel × InStream :=
  let (v, s1) := s.readFloat
  let nm := match labels[i]? with | some l => l | none => unlabeledAnalog ++ decimal i
  ({ name := rtrim nm, v := v }, s1)

def readIdx (f : Nat → InStream → α × InStream) : Nat → Nat → InStream → List α × InStream
  | 0, _, s => ([], s)
  | n + 1, i, s => let (a, s1) := f i s; let (as, s2) := readIdx f n (i + 1) s1; (a :: as, s2)

def readFrame (np nsf nch : Nat) (pl al : List Bytes) (s : InStream) : Frame × InStream :=
  let (pts, s1) := readIdx (readPoint pl) np 0 s
  let (subs, s2) := readMany (fun s => readIdx (readChannel al) nch 0 s) nsf s1
  ({ pts := pts, subs := subs }, s2)

/-- largest element counts `std::vector<T>(n)` accepts before `length_error` -/
def maxPoints : Nat := 164703072086692425   -- PTRDIFF_MAX / sizeof(Point)  (56 bytes)
def maxSubframes : Nat := 384307168202282325 -- PTRDIFF_MAX / sizeof(SubFrame) (24 bytes)
def maxChannels : Nat := 230584300921369395  -- PTRDIFF_MAX / sizeof(Channel) (40 bytes)

/-- `Data::Data(c3d&)` given the header and groups already loaded (and reconciled) -/
def readData (s0 : InStream) (h : Header) (ph : PHeader) (gs : List Group) : RRes (List Frame) :=
  let off : Int := u64ToI32 (u64 (512 * subU64 h.paramAddr 1 + h.zeros + 512 * ph.nbBlocks + two64 - 1))
  let (_, s1) := (s0.seekBeg off).readInt 1
  let nf := h.nbFrames
  if nf > maxFrames then rthrow .length_error else
  let plR : Res (List Bytes) := if h.nbPoints > 0 then strsOf gs POINT LABELS else .ok []
  match plR with
  | .throw e => rthrow e
  | .ub k => rub k
  | .ok pl =>
  let alR : Res (List Bytes) := if h.nbAnalogs > 0 then strsOf gs ANALOG LABELS else .ok []
  match alR with
  | .throw e => rthrow e
  | .ub k => rub k
  | .ok al =>
  if nf = 0 then .ok ([], s1)
  else if ¬ (h.scale < 0) then rthrow .invalid_argument
  else if h.nbPoints > maxPoints then rthrow .length_error
  else if h.nbAnalogByFrame > maxSubframes then rthrow .length_error
  else if h.nbAnalogByFrame > 0 ∧ h.nbAnalogs > maxChannels then rthrow .length_error
  else
    let (frames, s2) := readMany (readFrame h.nbPoints h.nbAnalogByFrame h.nbAnalogs pl al) nf s1
    .ok (frames, s2)

/-- `c3d::c3d(const std::string&)` on the bytes of an openable file. The exception class, or the
    loaded object. (A failing constructor leaves no object.) -/
def C3D.load (F : FloatOps) (file : Bytes) : Res C3D :=
  match Header.read (InStream.open_ file) with
  | .error (.inl e) => .throw e
  | .error (.inr k) => .ub k
  | .ok (h, s1) =>
  match readParameters s1 h with
  | .error (.inl e) => .throw e
  | .error (.inr k) => .ub k
  | .ok ((ph, gs), s2) =>
  match updateHeader F { hdr := h, ph := ph, groups := gs, frames := [] } with
  | .throw e _ => .throw e
  | .ub k => .ub k
  | .ok c1 =>
  match readData s2 c1.hdr ph gs with
  | .error (.inl e) => .throw e
  | .error (.inr k) => .ub k
  | .ok (frames, _) => .ok { c1 with frames := frames }

end Ezc3d
