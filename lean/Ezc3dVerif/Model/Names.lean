import Ezc3dVerif.Model.Types
/- Byte-list constants for the names the library uses (generated once, by hand-run script). -/
namespace Ezc3d.N

def POINT : Bytes := [80, 79, 73, 78, 84]  -- "POINT"
def ANALOG : Bytes := [65, 78, 65, 76, 79, 71]  -- "ANALOG"
def FORCE_PLATFORM : Bytes := [70, 79, 82, 67, 69, 95, 80, 76, 65, 84, 70, 79, 82, 77]  -- "FORCE_PLATFORM"
def USED : Bytes := [85, 83, 69, 68]  -- "USED"
def SCALE : Bytes := [83, 67, 65, 76, 69]  -- "SCALE"
def RATE : Bytes := [82, 65, 84, 69]  -- "RATE"
def DATA_START : Bytes := [68, 65, 84, 65, 95, 83, 84, 65, 82, 84]  -- "DATA_START"
def FRAMES : Bytes := [70, 82, 65, 77, 69, 83]  -- "FRAMES"
def LABELS : Bytes := [76, 65, 66, 69, 76, 83]  -- "LABELS"
def DESCRIPTIONS : Bytes := [68, 69, 83, 67, 82, 73, 80, 84, 73, 79, 78, 83]  -- "DESCRIPTIONS"
def UNITS : Bytes := [85, 78, 73, 84, 83]  -- "UNITS"
def GEN_SCALE : Bytes := [71, 69, 78, 95, 83, 67, 65, 76, 69]  -- "GEN_SCALE"
def OFFSET : Bytes := [79, 70, 70, 83, 69, 84]  -- "OFFSET"
def FORMAT : Bytes := [70, 79, 82, 77, 65, 84]  -- "FORMAT"
def BITS : Bytes := [66, 73, 84, 83]  -- "BITS"
def TYPE : Bytes := [84, 89, 80, 69]  -- "TYPE"
def ZERO : Bytes := [90, 69, 82, 79]  -- "ZERO"
def CORNERS : Bytes := [67, 79, 82, 78, 69, 82, 83]  -- "CORNERS"
def ORIGIN : Bytes := [79, 82, 73, 71, 73, 78]  -- "ORIGIN"
def CHANNEL : Bytes := [67, 72, 65, 78, 78, 69, 76]  -- "CHANNEL"
def CAL_MATRIX : Bytes := [67, 65, 76, 95, 77, 65, 84, 82, 73, 88]  -- "CAL_MATRIX"
def mm : Bytes := [109, 109]  -- "mm"
def V : Bytes := [86]  -- "V"
def unlabeledPoint : Bytes := [117, 110, 108, 97, 98, 101, 108, 101, 100, 95, 112, 111, 105, 110, 116, 95]  -- "unlabeled_point_"
def unlabeledAnalog : Bytes := [117, 110, 108, 97, 98, 101, 108, 101, 100, 95, 97, 110, 97, 108, 111, 103, 95]  -- "unlabeled_analog_"

end Ezc3d.N
