import Ezc3dVerif.Model.Containers
/-
  Byte codec: ezc3d.cpp:98-164 (hex2uint, hex2int, readInt/Uint/Float/String) and the
  "low n bytes of a wider integer" output idiom `f.write(reinterpret_cast<const char*>(&x), n)`.
-/
namespace Ezc3d

/-! ### output side: low bytes of two's-complement integers, little endian -/

def low8 (v : Int) : UInt8 := UInt8.ofNat (v % 256).toNat
def le16 (v : Int) : Bytes := [UInt8.ofNat (v % 256).toNat, UInt8.ofNat ((v / 256) % 256).toNat]
def le32 (v : Int) : Bytes :=
  [UInt8.ofNat (v % 256).toNat, UInt8.ofNat ((v / 256) % 256).toNat,
   UInt8.ofNat ((v / 65536) % 256).toNat, UInt8.ofNat ((v / 16777216) % 256).toNat]
def low8N (n : Nat) : UInt8 := low8 (n : Int)
def le16N (n : Nat) : Bytes := le16 (n : Int)
def f32le (v : UInt32) : Bytes :=
  [UInt8.ofNat (v.toNat % 256), UInt8.ofNat ((v.toNat / 256) % 256),
   UInt8.ofNat ((v.toNat / 65536) % 256), UInt8.ofNat ((v.toNat / 16777216) % 256)]

/-! ### input side -/

/-- 32-bit wrap of an integer (what gcc/clang produce for the overflowing `int` arithmetic) -/
def wrapU32 (v : Int) : Nat := (v % (two32 : Int)).toNat

/-- `static_cast<int>(pow(0x100, i))` on x86-64: exact for i ≤ 3, `INT_MIN` (cvttsd2si overflow
    indicator) beyond — the latter is undefined behaviour in C++ (see C19). -/
def powTerm (i : Nat) : Int := if i < 4 then (256 : Int) ^ i else -2147483648

/-- `c3d::hex2uint`: `ret |= (int)(unsigned char)val[i] * (int)pow(0x100, i)` in a signed `int`,
    returned as `unsigned int`. -/
def hex2uintAux : Bytes → Nat → Nat → Nat
  | [], _, acc => acc
  | b :: rest, i, acc => hex2uintAux rest (i + 1) (acc ||| wrapU32 ((b.toNat : Int) * powTerm i))

def hex2uint (val : Bytes) : Nat := hex2uintAux val 0 0

/-- `max |= 0xFF * (unsigned)pow(0x100,i)`: 0xFF, 0xFFFF, 0xFFFFFF, then 0xFFFFFFFF for len ≥ 4
    (the out-of-range double→unsigned conversions contribute 0 on x86-64). -/
def hexMax (len : Nat) : Nat :=
  if len = 0 then 0 else if len = 1 then 0xFF else if len = 2 then 0xFFFF
  else if len = 3 then 0xFFFFFF else 0xFFFFFFFF

/-- `c3d::hex2int`: half-range test turning the unsigned value into a signed one. -/
def hex2int (val : Bytes) : Int :=
  let tp := hex2uint val
  let mx := hexMax val.length
  if tp > mx / 2 then u64ToI32 ((tp + two32 - mx - 1) % two32) else u64ToI32 tp

/-- does evaluating `hex2uint` on these bytes execute arithmetic that C++ leaves undefined?
    (float→int conversion out of range for i ≥ 4; signed overflow of byte·256³ for byte ≥ 0x80) -/
def hex2uintArithUB (val : Bytes) : Bool :=
  val.length > 4 || (match val[3]? with | some b => b.toNat ≥ 128 | none => false)

/-- float bytes → bit pattern (`*reinterpret_cast<float*>(c_float)`), little endian -/
def f32OfBytes (b : Bytes) : UInt32 :=
  UInt32.ofNat ((b.getD 0 0).toNat + 256 * (b.getD 1 0).toNat + 65536 * (b.getD 2 0).toNat
    + 16777216 * (b.getD 3 0).toNat)

end Ezc3d
