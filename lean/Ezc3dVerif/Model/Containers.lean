import Ezc3dVerif.Model.Names
/-
  Containers: bounds-checked positional access (`.at` + rethrow → out_of_range), linear name
  search (→ invalid_argument), the append / resize-then-assign setters, type-guarded value getters
  and the three typed `Parameter::set` overloads with the shape-consistency predicate.
  Sources: Data.cpp:103-139, Points.cpp:38-89, Subframe.cpp:40-93, Analogs.cpp:40-73,
  Parameters.cpp:295-350, Group.cpp:132-198, Parameter.cpp:232-362, Header.cpp:351-394.
-/
namespace Ezc3d

/-! ### Res / Outcome plumbing -/

def Res.bind (r : Res α) (f : α → Res β) : Res β :=
  match r with
  | .ok a => f a
  | .throw e => .throw e
  | .ub k => .ub k

@[simp] theorem Res.bind_ok (a : α) (f : α → Res β) : (Res.ok a).bind f = f a := rfl
@[simp] theorem Res.bind_throw (e : Exc) (f : α → Res β) : (Res.throw e : Res α).bind f = .throw e := rfl
@[simp] theorem Res.bind_ub (k : UBKind) (f : α → Res β) : (Res.ub k : Res α).bind f = .ub k := rfl

def Res.map (r : Res α) (f : α → β) : Res β := r.bind (fun a => .ok (f a))

/-- Continue a mutating call with the result of a look-up; when the look-up throws, the exception
    escapes and the object is left in state `left`. -/
def Res.andThen (r : Res α) (left : σ) (k : α → Outcome σ) : Outcome σ :=
  match r with
  | .ok a => k a
  | .throw e => .throw e left
  | .ub u => .ub u

@[simp] theorem Res.andThen_ok (a : α) (l : σ) (k : α → Outcome σ) : (Res.ok a).andThen l k = k a := rfl
@[simp] theorem Res.andThen_throw (e : Exc) (l : σ) (k : α → Outcome σ) :
    (Res.throw e : Res α).andThen l k = .throw e l := rfl
@[simp] theorem Res.andThen_ub (u : UBKind) (l : σ) (k : α → Outcome σ) :
    (Res.ub u : Res α).andThen l k = .ub u := rfl

def Outcome.bind (o : Outcome σ) (k : σ → Outcome σ) : Outcome σ :=
  match o with
  | .ok s => k s
  | .throw e l => .throw e l
  | .ub u => .ub u

@[simp] theorem Outcome.bind_ok (s : σ) (k : σ → Outcome σ) : (Outcome.ok s).bind k = k s := rfl
@[simp] theorem Outcome.bind_throw (e : Exc) (l : σ) (k : σ → Outcome σ) :
    (Outcome.throw e l).bind k = .throw e l := rfl
@[simp] theorem Outcome.bind_ub (u : UBKind) (k : σ → Outcome σ) :
    (Outcome.ub u : Outcome σ).bind k = .ub u := rfl

/-! ### positional and by-name access -/

/-- `v.at(idx)` wrapped in try/catch that rethrows `std::out_of_range`. -/
def atIdx (l : List α) (i : Nat) : Res α :=
  match l[i]? with
  | some a => .ok a
  | none => .throw .out_of_range

/-- `v[idx]` (unchecked). -/
def rawIdx (l : List α) (i : Nat) : Res α :=
  match l[i]? with
  | some a => .ok a
  | none => .ub .vecIndex

/-- Linear search of the first element whose name compares equal; throws invalid_argument. -/
def nameIdx (name : α → Bytes) (l : List α) (key : Bytes) : Res Nat :=
  match l.findIdx? (fun a => name a == key) with
  | some i => .ok i
  | none => .throw .invalid_argument

def byName (name : α → Bytes) (l : List α) (key : Bytes) : Res α :=
  (nameIdx name l key).bind (atIdx l)

/-- push_back when `idx = SIZE_MAX`, else `resize(idx+1)` if needed then assign.
    `maxSize` is the container's `max_size()` (`resize` beyond it throws length_error). -/
def setAt (dflt : α) (l : List α) (idx : Nat) (x : α) : List α :=
  if idx < l.length then l.set idx x
  else l ++ (List.replicate (idx - l.length) dflt ++ [x])

def appendOrSetAt (dflt : α) (l : List α) (idx : Nat) (x : α) : List α :=
  if idx = SIZE_MAX then l ++ [x] else setAt dflt l idx x

/-! ### Point / Channel naming (Point.cpp:47-52, Channel.cpp:38-43): trailing spaces trimmed -/

def Point.setName (p : Point) (n : Bytes) : Point := { p with name := rtrim n }
def Channel.setName (c : Channel) (n : Bytes) : Channel := { c with name := rtrim n }

/-! ### Parameter value getters (Parameter.cpp:335-362) -/

def Param.asByte (p : Param) : Res (List Int) :=
  if p.type = .byte then .ok p.ints else .throw .invalid_argument
def Param.asInt (p : Param) : Res (List Int) :=
  if p.type = .int then .ok p.ints else .throw .invalid_argument
def Param.asFloat (p : Param) : Res (List UInt32) :=
  if p.type = .float then .ok p.floats else .throw .invalid_argument
def Param.asString (p : Param) : Res (List Bytes) :=
  if p.type = .char then .ok p.strs else .throw .invalid_argument

/-! ### Parameter::set and isDimensionConsistent (Parameter.cpp:232-333) -/

/-- product of the dimensions in `size_t` (wraps modulo 2^64 at every step); used by the writer -/
def prodU64 (dims : List Nat) : Nat := dims.foldl (fun a d => u64 (a * d)) 1

/-- the overflow-free comparison loop of `isDimensionConsistent` (no dimension is 0 here):
    refuse as soon as the running product would exceed the data size -/
def prodMatches (dataSize : Nat) : List Nat → Nat → Bool
  | [], acc => dataSize == acc
  | d :: rest, acc => if acc > dataSize / d then false else prodMatches dataSize rest (acc * d)

/-- `Parameter::isDimensionConsistent` (Parameter.cpp:232-249) -/
def dimConsistent (dataSize : Nat) (dims : List Nat) : Bool :=
  if dataSize = 0 then dims.length == 0 || dims.contains 0
  else if dims.contains 0 then false
  else prodMatches dataSize dims 1

/-- empty `dimension` argument means "one dimension, as long as the data" -/
def effDims (n : Nat) (dims : List Nat) : List Nat :=
  if dims.length = 0 then [n] else dims

def Param.setInts (p : Param) (data : List Int) (dims : List Nat := []) : Res Param :=
  if dimConsistent data.length (effDims data.length dims)
  then .ok { p with type := .int, ints := data, dims := effDims data.length dims }
  else .throw .range_error

def Param.setFloats (p : Param) (data : List UInt32) (dims : List Nat := []) : Res Param :=
  if dimConsistent data.length (effDims data.length dims)
  then .ok { p with type := .float, floats := data, dims := effDims data.length dims }
  else .throw .range_error

def maxLen (data : List Bytes) : Nat := data.foldl (fun m s => if s.length > m then s.length else m) 0

def Param.setStrs (p : Param) (data : List Bytes) (dims : List Nat := []) : Res Param :=
  if dimConsistent data.length (effDims data.length dims) then
    .ok { p with type := .char, strs := data, dims := maxLen data :: effDims data.length dims }
  else .throw .range_error

/-- the setters used internally with default dimensions never fail; total versions -/
def Param.setInts! (p : Param) (data : List Int) : Param :=
  { p with type := .int, ints := data, dims := [data.length] }
def Param.setFloats! (p : Param) (data : List UInt32) : Param :=
  { p with type := .float, floats := data, dims := [data.length] }
def Param.setStrs! (p : Param) (data : List Bytes) : Param :=
  { p with type := .char, strs := data, dims := [maxLen data, data.length] }

/-! ### Group / Parameters (Group.cpp:132-198, Parameters.cpp:295-350) -/

def groupIdx (gs : List Group) (name : Bytes) : Res Nat := nameIdx Group.name gs name
def Group.paramIdx (g : Group) (name : Bytes) : Res Nat := nameIdx Param.name g.params name

/-- `Group::parameter(const Parameter&)`: untyped → runtime_error; replace the first parameter of the
    same name in place, else append. -/
def Group.addParam (g : Group) (p : Param) : Res Group :=
  if p.type = .none then .throw .runtime_error
  else match g.params.findIdx? (fun q => q.name == p.name) with
    | some i => .ok { g with params := g.params.set i p }
    | none => .ok { g with params := g.params ++ [p] }

/-- `group(g).parameter(p)` through the const accessors -/
def getParam (gs : List Group) (g p : Bytes) : Res Param :=
  (byName Group.name gs g).bind fun grp => byName Param.name grp.params p

/-- `group(g).parameter(p).valuesAsInt().at(0)` -/
def int0 (gs : List Group) (g p : Bytes) : Res Int :=
  (getParam gs g p).bind fun q => q.asInt.bind fun v => atIdx v 0
/-- `group(g).parameter(p).valuesAsFloat().at(0)` -/
def float0 (gs : List Group) (g p : Bytes) : Res UInt32 :=
  (getParam gs g p).bind fun q => q.asFloat.bind fun v => atIdx v 0
def strsOf (gs : List Group) (g p : Bytes) : Res (List Bytes) :=
  (getParam gs g p).bind fun q => q.asString

/-- modify parameter `pi` of group `gi` (both known to exist) -/
def modParam (gs : List Group) (gi pi : Nat) (f : Param → Param) : List Group :=
  gs.modify gi fun g => { g with params := g.params.modify pi f }

end Ezc3d
