import Ezc3dVerif.Basic.Core
/-
  In-memory state of an `ezc3d::c3d` object, value level.
  Floats are 32-bit patterns (`UInt32`) everywhere; the few places where the code *computes*
  with floats are fields of `FloatOps`.
-/
namespace Ezc3d

/-- The float computations the library performs (everything else is bit transport).
    Parametric: no theorem assumes anything about these unless stated as a hypothesis. -/
structure FloatOps where
  /-- `static_cast<int>(rate * 10000.f)` (ezc3d.cpp updateHeader) -/
  rateKey : UInt32 → Int
  /-- `static_cast<size_t>(rate)` -/
  truncNat : UInt32 → Nat
  /-- `static_cast<size_t>(std::round(a / b))` (sub-frames per frame from the two rates; rounded since fix 'subframes rounded') -/
  ratioNat : UInt32 → UInt32 → Nat

/-- `static_cast<double>(x) == 0.0`: +0 or -0. A bit test, needs no float. -/
def isZeroF (b : UInt32) : Bool := (b &&& 0x7FFFFFFF) == 0

inductive PType where
  | char | byte | int | float | none
  deriving DecidableEq, Repr, Inhabited

def PType.code : PType → Int
  | .char => -1 | .byte => 1 | .int => 2 | .float => 4 | .none => 10000

/-- `ezc3d::ParametersNS::GroupNS::Parameter`: the three value vectors exist side by side in
    the C++ object; only the one selected by `type` is observable. -/
structure Param where
  name   : Bytes := []
  desc   : Bytes := []
  locked : Bool := false
  type   : PType := .none
  dims   : List Nat := []
  ints   : List Int := []
  floats : List UInt32 := []
  strs   : List Bytes := []
  deriving DecidableEq, Repr, Inhabited

structure Group where
  name   : Bytes := []
  desc   : Bytes := []
  locked : Bool := false
  params : List Param := []
  deriving DecidableEq, Repr, Inhabited

structure Point where
  name : Bytes := []
  x : UInt32 := 0
  y : UInt32 := 0
  z : UInt32 := 0
  r : UInt32 := 0
  deriving DecidableEq, Repr, Inhabited

structure Channel where
  name : Bytes := []
  v : UInt32 := 0
  deriving DecidableEq, Repr, Inhabited

abbrev SubFrame := List Channel

structure Frame where
  pts  : List Point := []
  subs : List SubFrame := []
  deriving DecidableEq, Repr, Inhabited

structure Header where
  zeros      : Nat := 0          -- _nbOfZerosBeforeHeader
  paramAddr  : Nat := 2
  checksum   : Nat := 0x50
  nbPoints   : Nat := 0          -- _nb3dPoints
  nbAnalogsMeas : Nat := 0       -- _nbAnalogsMeasurement
  firstFrame : Nat := 0
  lastFrame  : Nat := 0
  maxGap     : Nat := 10
  scale      : Int := -1
  dataStart  : Nat := 1
  nbAnalogByFrame : Nat := 0
  rate       : UInt32 := 0
  empty1 : Int := 0
  empty2 : Int := 0
  empty3 : Int := 0
  empty4 : Int := 0
  keyLabelPresent : Nat := 0
  firstBlockKeyLabel : Nat := 0
  fourCharPresent : Nat := 0x3039
  nbEvents : Nat := 0
  evTimes   : List UInt32 := List.replicate 18 0
  evDisplay : List Nat := List.replicate 9 0
  evLabels  : List Bytes := List.replicate 18 []
  deriving DecidableEq, Repr, Inhabited

/-- The four bytes of the parameter-section prologue as kept in memory. -/
structure PHeader where
  start : Nat := 1
  checksum : Nat := 0x50
  nbBlocks : Nat := 0
  processor : Nat := 84
  deriving DecidableEq, Repr, Inhabited

structure C3D where
  hdr    : Header := {}
  ph     : PHeader := {}
  groups : List Group := []
  frames : List Frame := []
  deriving DecidableEq, Repr, Inhabited

/-! ### Header derived getters (Header.cpp:223-247) -/

def Header.nbAnalogs (h : Header) : Nat :=
  if h.nbAnalogByFrame = 0 then 0 else h.nbAnalogsMeas / h.nbAnalogByFrame

def Header.setNbAnalogs (h : Header) (n : Nat) : Header :=
  { h with nbAnalogsMeas := u64 (n * h.nbAnalogByFrame) }

def Header.nbFrames (h : Header) : Nat :=
  if h.nbPoints = 0 ∧ h.nbAnalogs = 0 then 0
  else u64 (subU64 h.lastFrame h.firstFrame + 1)

/-- `Header::nbAnalogByFrame(size_t)`: keeps the channel count, rescales samples per frame. -/
def Header.setNbAnalogByFrame (h : Header) (n : Nat) : Header :=
  let analogs := h.nbAnalogs
  ({ h with nbAnalogByFrame := n }).setNbAnalogs analogs

end Ezc3d
