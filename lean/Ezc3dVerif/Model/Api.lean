import Ezc3dVerif.Model.Containers
/-
  The object state machine: ezc3d.cpp:252-560 (as of the `fix:` commits), function by function,
  same guards in the same order. `F : FloatOps` carries the float computations.
-/
namespace Ezc3d
open N

/-- `Parameters::Parameters()` (Parameters.cpp:12-123): the mandatory groups of a new object. -/
def defaultGroups : List Group :=
  let i (n : Bytes) (v : List Int) (lk := false) : Param :=
    { name := n, locked := lk, type := .int, dims := [v.length], ints := v }
  let f (n : Bytes) (v : List UInt32) (lk := false) : Param :=
    { name := n, locked := lk, type := .float, dims := [v.length], floats := v }
  let s (n : Bytes) : Param := { name := n, type := .char, dims := [0, 0], strs := [] }
  [ { name := POINT, params :=
        [ i USED [0] true, f SCALE [0xBF800000] true, f RATE [0] true, i DATA_START [0] true,
          i FRAMES [0] true, s LABELS, s DESCRIPTIONS, s UNITS ] },
    { name := ANALOG, params :=
        [ i USED [0] true, s LABELS, s DESCRIPTIONS, i GEN_SCALE [1], f SCALE [], i OFFSET [],
          s UNITS, f RATE [0] true, s FORMAT, i BITS [] ] },
    { name := FORCE_PLATFORM, params :=
        [ i USED [0], i TYPE [], i ZERO [1, 0], f CORNERS [], f ORIGIN [], i CHANNEL [],
          f CAL_MATRIX [] ] } ]

/-- `c3d::c3d()` -/
def C3D.init : C3D := { groups := defaultGroups }

/-- `c3d::updateHeader()` (ezc3d.cpp:417-456). "Parameters win over the header." -/
def updateHeader (F : FloatOps) (s : C3D) : Outcome C3D :=
  (float0 s.groups POINT RATE).andThen s fun pointRate =>
  let h1 := if F.rateKey pointRate ≠ F.rateKey s.hdr.rate then { s.hdr with rate := pointRate } else s.hdr
  let s1 := { s with hdr := h1 }
  (int0 s.groups POINT USED).andThen s1 fun used =>
  let h2 := if intToU64 used ≠ h1.nbPoints then { h1 with nbPoints := intToU64 used } else h1
  let s2 := { s with hdr := h2 }
  -- sub-frames: from the data when possible, else from the rate ratio
  let sub : Outcome C3D :=
    match s.frames with
    | f0 :: _ =>
      if f0.subs.length ≠ 0 then
        .ok { s with hdr := if f0.subs.length ≠ h2.nbAnalogByFrame then h2.setNbAnalogByFrame f0.subs.length else h2 }
      else
        (byName Group.name s.groups ANALOG).andThen s2 fun ga =>
        if ga.params.length ≠ 0 then
          if F.truncNat pointRate = 0 then
            .ok { s with hdr := if h2.nbAnalogByFrame ≠ 1 then h2.setNbAnalogByFrame 1 else h2 }
          else
            (float0 s.groups ANALOG RATE).andThen s2 fun ar =>
            .ok { s with hdr := if F.ratioNat ar pointRate ≠ h2.nbAnalogByFrame
                                then h2.setNbAnalogByFrame (F.ratioNat ar pointRate) else h2 }
        else .ok s2
    | [] =>
        (byName Group.name s.groups ANALOG).andThen s2 fun ga =>
        if ga.params.length ≠ 0 then
          if F.truncNat pointRate = 0 then
            .ok { s with hdr := if h2.nbAnalogByFrame ≠ 1 then h2.setNbAnalogByFrame 1 else h2 }
          else
            (float0 s.groups ANALOG RATE).andThen s2 fun ar =>
            .ok { s with hdr := if F.ratioNat ar pointRate ≠ h2.nbAnalogByFrame
                                then h2.setNbAnalogByFrame (F.ratioNat ar pointRate) else h2 }
        else .ok s2
  sub.bind fun s3 =>
  (byName Group.name s.groups ANALOG).andThen s3 fun ga =>
  let s4r : Outcome C3D :=
    if ga.params.length ≠ 0 then
      (int0 s.groups ANALOG USED).andThen s3 fun au =>
      .ok { s3 with hdr := if intToU64 au ≠ s3.hdr.nbAnalogs then s3.hdr.setNbAnalogs (intToU64 au) else s3.hdr }
    else .ok { s3 with hdr := s3.hdr.setNbAnalogs 0 }
  s4r.bind fun s4 =>
  (int0 s.groups POINT FRAMES).andThen s4 fun fr =>
  if intToU64 fr ≠ s4.hdr.nbFrames then
    .ok { s4 with hdr := { s4.hdr with firstFrame := 0, lastFrame := subU64 (intToU64 fr) 1 } }
  else .ok s4

/-- index of a group / parameter that must exist, as the non-const accessors find it -/
def gpIdx (gs : List Group) (g p : Bytes) : Res (Nat × Nat) :=
  (groupIdx gs g).bind fun gi => (atIdx gs gi).bind fun grp =>
  (grp.paramIdx p).bind fun pi => .ok (gi, pi)

/-- `c3d::updateParameters(newPoints, newAnalogs)` (ezc3d.cpp:458-560). -/
def updateParameters (F : FloatOps) (s : C3D) (newPoints newAnalogs : List Bytes := []) : Outcome C3D :=
  if s.frames.length ≠ 0 ∧ newPoints.length > 0 then .throw .runtime_error s else
  if s.frames.length ≠ 0 ∧ newAnalogs.length > 0 then .throw .runtime_error s else
  -- POINT:FRAMES
  (gpIdx s.groups POINT FRAMES).andThen s fun (gP, iFrames) =>
  (int0 s.groups POINT FRAMES).andThen s fun fr =>
  let g1 := if s.frames.length ≠ intToU64 fr
            then modParam s.groups gP iFrames (·.setInts! [u64ToI32 s.frames.length]) else s.groups
  let s1 := { s with groups := g1 }
  -- POINT:USED and the label-like lists
  (strsOf g1 POINT LABELS).andThen s1 fun oldLabels =>
  let ptNames : List Bytes := match s.frames with
    | f0 :: _ => f0.pts.map (·.name)
    | [] => oldLabels ++ newPoints
  (int0 g1 POINT USED).andThen s1 fun used =>
  let pointPart : Outcome C3D :=
    if ptNames.length ≠ intToU64 used then
      (gpIdx g1 POINT USED).andThen s1 fun (_, iUsed) =>
      let g2 := modParam g1 gP iUsed (·.setInts! [u64ToI32 ptNames.length])
      let s2 := { s with groups := g2 }
      (gpIdx g2 POINT LABELS).andThen s2 fun (_, iL) =>
      (gpIdx g2 POINT DESCRIPTIONS).andThen s2 fun (_, iD) =>
      (gpIdx g2 POINT UNITS).andThen s2 fun (_, iU) =>
      let g3 := modParam g2 gP iL (·.setStrs! ptNames)
      let g4 := modParam g3 gP iD (·.setStrs! (ptNames.map fun _ => []))
      let g5 := modParam g4 gP iU (·.setStrs! (ptNames.map fun _ => mm))
      .ok { s with groups := g5 }
    else .ok s1
  pointPart.bind fun s3 =>
  -- ANALOG
  (groupIdx s3.groups ANALOG).andThen s3 fun gA =>
  (strsOf s3.groups ANALOG LABELS).andThen s3 fun oldALabels =>
  let chNames : List Bytes := match s.frames with
    | f0 :: _ => (match f0.subs with | sf0 :: _ => sf0.map (·.name) | [] => [])
    | [] => oldALabels ++ newAnalogs
  (int0 s3.groups ANALOG USED).andThen s3 fun aused =>
  let analogPart : Outcome C3D :=
    if chNames.length ≠ intToU64 aused then
      (gpIdx s3.groups ANALOG USED).andThen s3 fun (_, iUsed) =>
      let a1 := modParam s3.groups gA iUsed (·.setInts! [u64ToI32 chNames.length])
      let t1 := { s3 with groups := a1 }
      (gpIdx a1 ANALOG LABELS).andThen t1 fun (_, iL) =>
      (gpIdx a1 ANALOG DESCRIPTIONS).andThen t1 fun (_, iD) =>
      let a2 := modParam a1 gA iL (·.setStrs! chNames)
      let a3 := modParam a2 gA iD (·.setStrs! (chNames.map fun _ => []))
      let t3 := { s3 with groups := a3 }
      (gpIdx a3 ANALOG SCALE).andThen t3 fun (_, iS) =>
      ((atIdx a3 gA).bind fun g => (atIdx g.params iS).bind fun q => q.asFloat).andThen t3 fun scales =>
      let a4 := modParam a3 gA iS (·.setFloats! (scales ++ List.replicate (chNames.length - scales.length) 0x3F800000))
      let t4 := { s3 with groups := a4 }
      (gpIdx a4 ANALOG OFFSET).andThen t4 fun (_, iO) =>
      ((atIdx a4 gA).bind fun g => (atIdx g.params iO).bind fun q => q.asInt).andThen t4 fun offs =>
      let a5 := modParam a4 gA iO (·.setInts! (offs ++ List.replicate (chNames.length - offs.length) 0))
      let t5 := { s3 with groups := a5 }
      (gpIdx a5 ANALOG UNITS).andThen t5 fun (_, iU) =>
      ((atIdx a5 gA).bind fun g => (atIdx g.params iU).bind fun q => q.asString).andThen t5 fun units =>
      let a6 := modParam a5 gA iU (·.setStrs! (units ++ List.replicate (chNames.length - units.length) V))
      .ok { s3 with groups := a6 }
    else .ok s3
  analogPart.bind fun s4 => updateHeader F s4

/-- `c3d::parameter(groupName, p)` (ezc3d.cpp:263-284) -/
def C3D.parameter (F : FloatOps) (s : C3D) (groupName : Bytes) (p : Param) : Outcome C3D :=
  if p.name = [] then .throw .invalid_argument s else
  if p.type = .none then .throw .runtime_error s else
  let gs1 : List Group := match groupIdx s.groups groupName with
    | .ok _ => s.groups
    | _ => s.groups ++ [{ name := groupName }]
  (groupIdx gs1 groupName).andThen s fun gi =>
  (atIdx gs1 gi).andThen s fun g =>
  (g.addParam p).andThen { s with groups := gs1 } fun g' =>
  updateHeader F { s with groups := gs1.set gi g' }

/-- `c3d::lockGroup` / `unlockGroup` -/
def C3D.setGroupLock (s : C3D) (groupName : Bytes) (v : Bool) : Outcome C3D :=
  (groupIdx s.groups groupName).andThen s fun gi =>
  .ok { s with groups := s.groups.modify gi fun g => { g with locked := v } }

/-- `vector<Frame>::max_size()` (32-byte elements): `resize` beyond it throws length_error. -/
def maxFrames : Nat := 288230376151711743

/-- `Data::frame(frame, idx)` (Data.cpp:130-144): append (deep copy) or resize-then-assign. -/
def dataFrame (frames : List Frame) (f : Frame) (idx : Nat) : Res (List Frame) :=
  if idx = SIZE_MAX then .ok (frames ++ [f])
  else if idx ≥ frames.length ∧ idx + 1 > maxFrames then .throw .length_error
  else .ok (setAt {} frames idx f)

/-- `c3d::frame(f, idx)` (ezc3d.cpp:296-332) -/
def C3D.frame (F : FloatOps) (s : C3D) (f : Frame) (idx : Nat := SIZE_MAX) : Outcome C3D :=
  (int0 s.groups POINT USED).andThen s fun used =>
  if intToU64 used ≠ 0 ∧ f.pts.length ≠ intToU64 used then .throw .runtime_error s else
  (strsOf s.groups POINT LABELS).andThen s fun labels =>
  if labels.any (fun l => !(f.pts.any fun p => p.name == l)) then .throw .invalid_argument s else
  (if f.pts.length > 0 then (float0 s.groups POINT RATE).map isZeroF else .ok false).andThen s fun pz =>
  if pz then .throw .runtime_error s else
  (if f.subs.length > 0 then (float0 s.groups ANALOG RATE).map isZeroF else .ok false).andThen s fun az =>
  if az then .throw .runtime_error s else
  (int0 s.groups ANALOG USED).andThen s fun aused =>
  let chanBad : Bool := match f.subs with
    | sf0 :: _ => !(intToU64 aused == 0 && s.hdr.nbAnalogByFrame == 0) && sf0.length != intToU64 aused
    | [] => false
  if chanBad then .throw .runtime_error s else
  (dataFrame s.frames f idx).andThen s fun frames' =>
  updateParameters F { s with frames := frames' }

/-- validation pass of `c3d::point(frames)`: first failing column decides the exception -/
def checkPointCols (labels : List Bytes) (frames : List Frame) : List (Nat × Point) → Option Exc
  | [] => none
  | (idx, p) :: rest =>
    if labels.contains p.name then some .invalid_argument
    else if frames.any (fun f => f.pts.length ≤ idx) then some .out_of_range
    else checkPointCols labels frames rest

def enum (l : List α) : List (Nat × α) := (List.range l.length).zip l

/-- `c3d::point(const std::vector<Frame>&)` (ezc3d.cpp:351-374) -/
def C3D.pointCols (F : FloatOps) (s : C3D) (frames : List Frame) : Outcome C3D :=
  if frames.length = 0 ∨ frames.length ≠ s.frames.length then .throw .invalid_argument s else
  match frames with
  | [] => .throw .invalid_argument s
  | f0 :: _ =>
    if f0.pts.length = 0 then .throw .invalid_argument s else
    (strsOf s.groups POINT LABELS).andThen s fun labels =>
    match checkPointCols labels frames (enum f0.pts) with
    | some e => .throw e s
    | none =>
      let n := f0.pts.length
      let frames' := List.zipWith (fun st fr => { st with pts := st.pts ++ fr.pts.take n }) s.frames frames
      updateParameters F { s with frames := frames' }

/-- `c3d::point(const std::string&)` (ezc3d.cpp:334-349) -/
def C3D.point (F : FloatOps) (s : C3D) (name : Bytes) : Outcome C3D :=
  if s.frames.length > 0 then
    let pt : Point := Point.setName {} name
    let fr : Frame := { pts := [pt] }
    s.pointCols F (List.replicate s.frames.length fr)
  else updateParameters F s [name] []

def checkAnalogCols (labels : List Bytes) (stored frames : List Frame) (nsf : Nat) :
    List (Nat × Channel) → Option Exc
  | [] => none
  | (idx, c) :: rest =>
    if labels.contains c.name then some .invalid_argument
    else if stored.any (fun f => f.subs.length < nsf) then some .out_of_range
    else if frames.any (fun f => f.subs.length < nsf ∨ (f.subs.take nsf).any (fun sf => sf.length ≤ idx))
      then some .out_of_range
    else checkAnalogCols labels stored frames nsf rest

/-- `c3d::analog(const std::vector<Frame>&)` (ezc3d.cpp:396-431) -/
def C3D.analogCols (F : FloatOps) (s : C3D) (frames : List Frame) : Outcome C3D :=
  if frames.length = 0 ∨ frames.length ≠ s.frames.length then .throw .invalid_argument s else
  match frames with
  | [] => .throw .invalid_argument s
  | f0 :: _ =>
    if f0.subs.length ≠ s.hdr.nbAnalogByFrame then .throw .invalid_argument s else
    match f0.subs with
    | [] => .throw .invalid_argument s
    | sf0 :: _ =>
      if sf0.length = 0 then .throw .invalid_argument s else
      (strsOf s.groups ANALOG LABELS).andThen s fun labels =>
      let nsf := s.hdr.nbAnalogByFrame
      match checkAnalogCols labels s.frames frames nsf (enum sf0) with
      | some e => .throw e s
      | none =>
        let n := sf0.length
        let addTo (st fr : Frame) : Frame :=
          { st with subs := List.zipWith (fun ssf fsf => ssf ++ fsf.take n) (st.subs.take nsf) (fr.subs.take nsf)
                              ++ st.subs.drop nsf }
        let frames' := List.zipWith addTo s.frames frames
        updateParameters F { s with frames := frames' }

/-- `c3d::analog(const std::string&)` (ezc3d.cpp:376-394) -/
def C3D.analog (F : FloatOps) (s : C3D) (name : Bytes) : Outcome C3D :=
  if s.frames.length > 0 then
    let ch : Channel := Channel.setName {} name
    let sf : SubFrame := [ch]
    let fr : Frame := { subs := List.replicate s.hdr.nbAnalogByFrame sf }
    s.analogCols F (List.replicate s.frames.length fr)
  else updateParameters F s [] [name]

/-- The public mutating operations of an `ezc3d::c3d`. -/
inductive Op where
  | parameter (group : Bytes) (p : Param)
  | lockGroup (group : Bytes)
  | unlockGroup (group : Bytes)
  | frame (f : Frame) (idx : Nat)        -- idx = SIZE_MAX: append
  | point (name : Bytes)
  | pointCols (frames : List Frame)
  | analog (name : Bytes)
  | analogCols (frames : List Frame)
  deriving Repr

def step (F : FloatOps) (s : C3D) : Op → Outcome C3D
  | .parameter g p => s.parameter F g p
  | .lockGroup g => s.setGroupLock g true
  | .unlockGroup g => s.setGroupLock g false
  | .frame f idx => s.frame F f idx
  | .point n => s.point F n
  | .pointCols fs => s.pointCols F fs
  | .analog n => s.analog F n
  | .analogCols fs => s.analogCols F fs

end Ezc3d
