import Ezc3dVerif.Model.Containers
/-
  The object state machine: ezc3d.cpp:252-560 (as of the `fix:` commits), function by function,
  same guards in the same order. `F : FloatOps` carries the float computations.
-/
namespace Ezc3d
open N

/-- `Parameters::Parameters()` (Parameters.cpp:12-123): the mandatory groups of a new object. -/
def defaultGroups : List Group :=
  let i (n : Bytes) (v : List Int) (lk := false) : Param :=
    { name := n, locked := lk, type := .int, dims := [v.length], ints := v }
  let f (n : Bytes) (v : List UInt32) (lk := false) : Param :=
    { name := n, locked := lk, type := .float, dims := [v.length], floats := v }
  let s (n : Bytes) : Param := { name := n, type := .char, dims := [0, 0], strs := [] }
  [ { name := POINT, params :=
        [ i USED [0] true, f SCALE [0xBF800000] true, f RATE [0] true, i DATA_START [0] true,
          i FRAMES [0] true, s LABELS, s DESCRIPTIONS, s UNITS ] },
    { name := ANALOG, params :=
        [ i USED [0] true, s LABELS, s DESCRIPTIONS, i GEN_SCALE [1], f SCALE [], i OFFSET [],
          s UNITS, f RATE [0] true, s FORMAT, i BITS [] ] },
    { name := FORCE_PLATFORM, params :=
        [ i USED [0], i TYPE [], i ZERO [1, 0], f CORNERS [], f ORIGIN [], i CHANNEL [],
          f CAL_MATRIX [] ] } ]

/-- `c3d::c3d()` -/
def C3D.init : C3D := { groups := defaultGroups }

/-- Lift a computation on one component of the object to the whole object: on success and on a
    throw the other components are, by construction, untouched. -/
def Outcome.lift (o : Outcome α) (f : α → σ) : Outcome σ :=
  match o with
  | .ok a => .ok (f a)
  | .throw e a => .throw e (f a)
  | .ub k => .ub k

/-- sub-frame count from the rate ratio (ezc3d.cpp:438-447), used when the data cannot tell -/
def subFromRates (F : FloatOps) (gs : List Group) (pointRate : UInt32) (h : Header) : Outcome Header :=
  (byName Group.name gs ANALOG).andThen h fun ga =>
  if ga.params.length ≠ 0 then
    if F.truncNat pointRate = 0 then
      .ok (if h.nbAnalogByFrame ≠ 1 then h.setNbAnalogByFrame 1 else h)
    else
      (float0 gs ANALOG RATE).andThen h fun ar =>
      .ok (if F.ratioNat ar pointRate ≠ h.nbAnalogByFrame then h.setNbAnalogByFrame (F.ratioNat ar pointRate) else h)
  else .ok h

/-- `c3d::updateHeader()` (ezc3d.cpp:417-456) as a function of the parameters, the stored frames and
    the current header. "Parameters win over the header." -/
def updateHeaderH (F : FloatOps) (gs : List Group) (frames : List Frame) (h : Header) : Outcome Header :=
  (float0 gs POINT RATE).andThen h fun pointRate =>
  let h1 := if F.rateKey pointRate ≠ F.rateKey h.rate then { h with rate := pointRate } else h
  (int0 gs POINT USED).andThen h1 fun used =>
  let h2 := if intToU64 used ≠ h1.nbPoints then { h1 with nbPoints := intToU64 used } else h1
  -- sub-frames: from the data when possible, else from the rate ratio
  let sub : Outcome Header :=
    match frames with
    | f0 :: _ =>
      if f0.subs.length ≠ 0 then
        .ok (if f0.subs.length ≠ h2.nbAnalogByFrame then h2.setNbAnalogByFrame f0.subs.length else h2)
      else subFromRates F gs pointRate h2
    | [] => subFromRates F gs pointRate h2
  sub.bind fun h3 =>
  (byName Group.name gs ANALOG).andThen h3 fun ga =>
  let h4r : Outcome Header :=
    if ga.params.length ≠ 0 then
      (int0 gs ANALOG USED).andThen h3 fun au =>
      .ok (if intToU64 au ≠ h3.nbAnalogs then h3.setNbAnalogs (intToU64 au) else h3)
    else .ok (h3.setNbAnalogs 0)
  h4r.bind fun h4 =>
  (int0 gs POINT FRAMES).andThen h4 fun fr =>
  if intToU64 fr ≠ h4.nbFrames then
    .ok { h4 with firstFrame := 0, lastFrame := subU64 (intToU64 fr) 1 }
  else .ok h4

def updateHeader (F : FloatOps) (s : C3D) : Outcome C3D :=
  (updateHeaderH F s.groups s.frames s.hdr).lift fun h => { s with hdr := h }

/-- index of a group / parameter that must exist, as the non-const accessors find it -/
def gpIdx (gs : List Group) (g p : Bytes) : Res (Nat × Nat) :=
  (groupIdx gs g).bind fun gi => (atIdx gs gi).bind fun grp =>
  (grp.paramIdx p).bind fun pi => .ok (gi, pi)

/-- names the label-like parameters are regenerated from: the first stored frame when there is
    data, else the existing labels followed by the pending declarations -/
def pointNames (frames : List Frame) (old new : List Bytes) : List Bytes :=
  match frames with
  | f0 :: _ => f0.pts.map (·.name)
  | [] => old ++ new

def channelNames (frames : List Frame) (old new : List Bytes) : List Bytes :=
  match frames with
  | f0 :: _ => (match f0.subs with | sf0 :: _ => sf0.map (·.name) | [] => [])
  | [] => old ++ new

/-- `group(G).parameter("LABELS").valuesAsString()` as `c3d::updateParameters` uses it: read ONLY when no frame is stored (with
    frames the names come from frame 0, and a LABELS parameter of another type is then not looked at) -/
def labelsFor (frames : List Frame) (gs : List Group) (g : Bytes) : Res (List Bytes) :=
  match frames with
  | [] => strsOf gs g LABELS
  | _ :: _ => .ok []

/-- `if (hasParameter(group, name)) group.parameter_nonConst(name).set(...)`: DESCRIPTIONS and UNITS are optional in a file and
    are kept up to date only where they exist (fix "optional text parameters") -/
def modIfPresent (gs : List Group) (g p : Bytes) (gi : Nat) (f : Param → Param) : List Group :=
  match gpIdx gs g p with
  | .ok (_, i) => modParam gs gi i f
  | _ => gs

/-- POINT part of `c3d::updateParameters` (ezc3d.cpp:466-505) -/
def updatePointParams (gs : List Group) (frames : List Frame) (newPoints : List Bytes) : Outcome (List Group) :=
  (gpIdx gs POINT FRAMES).andThen gs fun (gP, iFrames) =>
  (int0 gs POINT FRAMES).andThen gs fun fr =>
  let g1 := if frames.length ≠ intToU64 fr
            then modParam gs gP iFrames (·.setInts! [u64ToI32 frames.length]) else gs
  (labelsFor frames g1 POINT).andThen g1 fun oldLabels =>
  let ptNames := pointNames frames oldLabels newPoints
  (int0 g1 POINT USED).andThen g1 fun used =>
  if ptNames.length ≠ intToU64 used then
    (gpIdx g1 POINT USED).andThen g1 fun (_, iUsed) =>
    let g2 := modParam g1 gP iUsed (·.setInts! [u64ToI32 ptNames.length])
    (gpIdx g2 POINT LABELS).andThen g2 fun (_, iL) =>
    let g3 := modParam g2 gP iL (·.setStrs! ptNames)
    let g4 := modIfPresent g3 POINT DESCRIPTIONS gP (·.setStrs! (ptNames.map fun _ => []))
    let g5 := modIfPresent g4 POINT UNITS gP (·.setStrs! (ptNames.map fun _ => mm))
    .ok g5
  else .ok g1

/-- ANALOG part of `c3d::updateParameters` (ezc3d.cpp:507-558) -/
def updateAnalogParams (gs : List Group) (frames : List Frame) (newAnalogs : List Bytes) : Outcome (List Group) :=
  (groupIdx gs ANALOG).andThen gs fun gA =>
  (labelsFor frames gs ANALOG).andThen gs fun oldALabels =>
  let chNames := channelNames frames oldALabels newAnalogs
  (int0 gs ANALOG USED).andThen gs fun aused =>
  if chNames.length ≠ intToU64 aused then
    (gpIdx gs ANALOG USED).andThen gs fun (_, iUsed) =>
    let a1 := modParam gs gA iUsed (·.setInts! [u64ToI32 chNames.length])
    (gpIdx a1 ANALOG LABELS).andThen a1 fun (_, iL) =>
    let a2 := modParam a1 gA iL (·.setStrs! chNames)
    let a3 := modIfPresent a2 ANALOG DESCRIPTIONS gA (·.setStrs! (chNames.map fun _ => []))
    (gpIdx a3 ANALOG SCALE).andThen a3 fun (_, iS) =>
    ((atIdx a3 gA).bind fun g => (atIdx g.params iS).bind fun q => q.asFloat).andThen a3 fun scales =>
    let a4 := modParam a3 gA iS (·.setFloats! (scales ++ List.replicate (chNames.length - scales.length) 0x3F800000))
    (gpIdx a4 ANALOG OFFSET).andThen a4 fun (_, iO) =>
    ((atIdx a4 gA).bind fun g => (atIdx g.params iO).bind fun q => q.asInt).andThen a4 fun offs =>
    let a5 := modParam a4 gA iO (·.setInts! (offs ++ List.replicate (chNames.length - offs.length) 0))
    match gpIdx a5 ANALOG UNITS with
    | .ok (_, iU) =>
      ((atIdx a5 gA).bind fun g => (atIdx g.params iU).bind fun q => q.asString).andThen a5 fun units =>
      let a6 := modParam a5 gA iU (·.setStrs! (units ++ List.replicate (chNames.length - units.length) V))
      .ok a6
    | _ => .ok a5
  else .ok gs

/-- `c3d::updateParameters(newPoints, newAnalogs)` (ezc3d.cpp:458-560). -/
def updateParameters (F : FloatOps) (s : C3D) (newPoints newAnalogs : List Bytes := []) : Outcome C3D :=
  if s.frames.length ≠ 0 ∧ newPoints.length > 0 then .throw .runtime_error s else
  if s.frames.length ≠ 0 ∧ newAnalogs.length > 0 then .throw .runtime_error s else
  ((updatePointParams s.groups s.frames newPoints).bind fun g =>
    updateAnalogParams g s.frames newAnalogs).lift (fun g => { s with groups := g })
  |>.bind fun s1 => updateHeader F s1

/-- the parameter tree after `c3d::parameter(groupName, p)` stored a typed, named parameter:
    find-or-create the group (appended at the end), then replace-or-append inside it -/
def insertParam (gs : List Group) (groupName : Bytes) (p : Param) : Res (List Group) :=
  let gs1 : List Group := match groupIdx gs groupName with
    | .ok _ => gs
    | _ => gs ++ [{ name := groupName }]
  (groupIdx gs1 groupName).bind fun gi =>
  (atIdx gs1 gi).bind fun g =>
  (g.addParam p).bind fun g' => .ok (gs1.set gi g')

/-- `c3d::parameter(groupName, p)` (ezc3d.cpp:263-284) -/
def C3D.parameter (F : FloatOps) (s : C3D) (groupName : Bytes) (p : Param) : Outcome C3D :=
  if p.name = [] then .throw .invalid_argument s else
  if p.type = .none then .throw .runtime_error s else
  (insertParam s.groups groupName p).andThen s fun gs' =>
  updateHeader F { s with groups := gs' }

/-- `c3d::lockGroup` / `unlockGroup` -/
def C3D.setGroupLock (s : C3D) (groupName : Bytes) (v : Bool) : Outcome C3D :=
  (groupIdx s.groups groupName).andThen s fun gi =>
  .ok { s with groups := s.groups.modify gi fun g => { g with locked := v } }

/-- `vector<Frame>::max_size()` (32-byte elements): `resize` beyond it throws length_error. -/
def maxFrames : Nat := 288230376151711743

/-- `Data::frame(frame, idx)` (Data.cpp:130-144): append (deep copy) or resize-then-assign. -/
def dataFrame (frames : List Frame) (f : Frame) (idx : Nat) : Res (List Frame) :=
  if idx = SIZE_MAX then .ok (frames ++ [f])
  else if idx ≥ frames.length ∧ idx + 1 > maxFrames then .throw .length_error
  else .ok (setAt {} frames idx f)

/-- the channel-count guard of `c3d::frame` (ezc3d.cpp:319-327) -/
def chanMismatch (f : Frame) (nAnalogs nAnalogByFrame : Nat) : Bool :=
  match f.subs with
  | sf0 :: _ => !(nAnalogs == 0 && nAnalogByFrame == 0) && sf0.length != nAnalogs
  | [] => false

/-- the label check of `c3d::frame`: some label of POINT:LABELS is the name of no point of the frame -/
def labelMissing (labels : List Bytes) (pts : List Point) : Bool :=
  labels.any (fun l => !(pts.any fun p => p.name == l))

/-- the position check of `c3d::frame`: some point sits at the position of a label with another name -/
def outOfOrder : List Bytes → List Point → Bool
  | l :: ls, p :: ps => p.name != l || outOfOrder ls ps
  | _, _ => false

/-- `c3d::frame(f, idx)` (ezc3d.cpp:296-336) -/
def C3D.frame (F : FloatOps) (s : C3D) (f : Frame) (idx : Nat := SIZE_MAX) : Outcome C3D :=
  (int0 s.groups POINT USED).andThen s fun used =>
  if intToU64 used ≠ 0 ∧ f.pts.length ≠ intToU64 used then .throw .runtime_error s else
  (strsOf s.groups POINT LABELS).andThen s fun labels =>
  if labelMissing labels f.pts then .throw .invalid_argument s else
  (if f.pts.length > 0 then (float0 s.groups POINT RATE).map isZeroF else .ok false).andThen s fun pz =>
  if pz then .throw .runtime_error s else
  (if f.subs.length > 0 then (float0 s.groups ANALOG RATE).map isZeroF else .ok false).andThen s fun az =>
  if az then .throw .runtime_error s else
  (int0 s.groups ANALOG USED).andThen s fun aused =>
  if chanMismatch f (intToU64 aused) s.hdr.nbAnalogByFrame then .throw .runtime_error s else
  if outOfOrder labels f.pts then .throw .invalid_argument s else
  (dataFrame s.frames f idx).andThen s fun frames' =>
  updateParameters F { s with frames := frames' }

/-- validation pass of `c3d::point(frames)`: first every new name against the existing labels, then
    every frame must hold every new column -/
def checkPointCols (labels : List Bytes) (frames : List Frame) (cols : List (Nat × Point)) : Option Exc :=
  if cols.any (fun c => labels.contains c.2.name) then some .invalid_argument
  else if cols.any (fun c => frames.any (fun f => f.pts.length ≤ c.1)) then some .out_of_range
  else none

def enum (l : List α) : List (Nat × α) := (List.range l.length).zip l

/-- `c3d::point(const std::vector<Frame>&)` (ezc3d.cpp:351-374) -/
def C3D.pointCols (F : FloatOps) (s : C3D) (frames : List Frame) : Outcome C3D :=
  if frames.length = 0 ∨ frames.length ≠ s.frames.length then .throw .invalid_argument s else
  match frames with
  | [] => .throw .invalid_argument s
  | f0 :: _ =>
    if f0.pts.length = 0 then .throw .invalid_argument s else
    (strsOf s.groups POINT LABELS).andThen s fun labels =>
    match checkPointCols labels frames (enum f0.pts) with
    | some e => .throw e s
    | none =>
      let n := f0.pts.length
      let frames' := List.zipWith (fun st fr => { st with pts := st.pts ++ fr.pts.take n }) s.frames frames
      updateParameters F { s with frames := frames' }

/-- `c3d::point(const std::string&)` (ezc3d.cpp:334-349) -/
def C3D.point (F : FloatOps) (s : C3D) (name : Bytes) : Outcome C3D :=
  if s.frames.length > 0 then
    let pt : Point := Point.setName {} name
    let fr : Frame := { pts := [pt] }
    s.pointCols F (List.replicate s.frames.length fr)
  else updateParameters F s [(Point.setName {} name).name] []      -- the label is the name as a point stores it (trimmed)

def checkAnalogCols (labels : List Bytes) (stored frames : List Frame) (nsf : Nat)
    (cols : List (Nat × Channel)) : Option Exc :=
  if cols.any (fun c => labels.contains c.2.name) then some .invalid_argument
  else if cols.isEmpty then none
  else if nsf > 0 ∧ stored.any (fun f => f.subs.length < nsf) then some .out_of_range
  else if cols.any (fun c => frames.any (fun f => f.subs.length < nsf ∨ (f.subs.take nsf).any (fun sf => sf.length ≤ c.1)))
    then some .out_of_range
  else none

/-- `c3d::analog(const std::vector<Frame>&)` (ezc3d.cpp:396-431) -/
def C3D.analogCols (F : FloatOps) (s : C3D) (frames : List Frame) : Outcome C3D :=
  if frames.length = 0 ∨ frames.length ≠ s.frames.length then .throw .invalid_argument s else
  match frames with
  | [] => .throw .invalid_argument s
  | f0 :: _ =>
    if f0.subs.length ≠ s.hdr.nbAnalogByFrame then .throw .invalid_argument s else
    match f0.subs with
    | [] => .throw .invalid_argument s
    | sf0 :: _ =>
      if sf0.length = 0 then .throw .invalid_argument s else
      (strsOf s.groups ANALOG LABELS).andThen s fun labels =>
      let nsf := s.hdr.nbAnalogByFrame
      match checkAnalogCols labels s.frames frames nsf (enum sf0) with
      | some e => .throw e s
      | none =>
        let n := sf0.length
        let addTo (st fr : Frame) : Frame :=
          { st with subs := List.zipWith (fun ssf fsf => ssf ++ fsf.take n) (st.subs.take nsf) (fr.subs.take nsf)
                              ++ st.subs.drop nsf }
        let frames' := List.zipWith addTo s.frames frames
        updateParameters F { s with frames := frames' }

/-- `c3d::analog(const std::string&)` (ezc3d.cpp:376-394) -/
def C3D.analog (F : FloatOps) (s : C3D) (name : Bytes) : Outcome C3D :=
  if s.frames.length > 0 then
    let ch : Channel := Channel.setName {} name
    let sf : SubFrame := [ch]
    let fr : Frame := { subs := List.replicate s.hdr.nbAnalogByFrame sf }
    s.analogCols F (List.replicate s.frames.length fr)
  else updateParameters F s [] [(Channel.setName {} name).name]    -- the label is the name as a channel stores it (trimmed)

/-- The public mutating operations of an `ezc3d::c3d`. -/
inductive Op where
  | parameter (group : Bytes) (p : Param)
  | lockGroup (group : Bytes)
  | unlockGroup (group : Bytes)
  | frame (f : Frame) (idx : Nat)        -- idx = SIZE_MAX: append
  | point (name : Bytes)
  | pointCols (frames : List Frame)
  | analog (name : Bytes)
  | analogCols (frames : List Frame)
  deriving Repr

def step (F : FloatOps) (s : C3D) : Op → Outcome C3D
  | .parameter g p => s.parameter F g p
  | .lockGroup g => s.setGroupLock g true
  | .unlockGroup g => s.setGroupLock g false
  | .frame f idx => s.frame F f idx
  | .point n => s.point F n
  | .pointCols fs => s.pointCols F fs
  | .analog n => s.analog F n
  | .analogCols fs => s.analogCols F fs

end Ezc3d
