import Ezc3dVerif.Model.Codec
/-
  Writers: Header.cpp:93-144, Parameters.cpp:227-275, Group.cpp:32-62, Parameter.cpp:43-135, Group.cpp:32-74,
  Data.cpp:92-96, Point.cpp:33-39, Channel.cpp:33-36, ezc3d.cpp:73-101 (as of the fix: commits).
  The C++ writes a blank, continues, seeks back and patches; here a writer returns its bytes and,
  where the code remembers a stream position (`dataStartPosition`), the offset of that slot inside
  the returned bytes.
-/
namespace Ezc3d
open N

def spaces (n : Nat) : Bytes := List.replicate n 32

/-- one event label cell: exactly 4 bytes, NUL padded (Header.cpp:136-141) -/
def label4 (s : Bytes) : Bytes := (s.take 4) ++ List.replicate (4 - (s.take 4).length) 0

/-- `Header::write` — the fixed 512-byte record; `dataStart` is what c3d::write patches in. -/
def Header.write (h : Header) (dataStart : Int) : Bytes :=
  [2, 0x50]
  ++ le16N h.nbPoints ++ le16N h.nbAnalogsMeas
  ++ le16N (u64 (h.firstFrame + 1)) ++ le16N (u64 (h.lastFrame + 1))
  ++ le16N h.maxGap ++ le32 h.scale
  ++ le16 dataStart ++ le16N h.nbAnalogByFrame ++ f32le h.rate
  ++ (List.replicate 135 (le16 h.empty1)).flatten
  ++ le16N h.keyLabelPresent ++ le16N h.firstBlockKeyLabel ++ le16N h.fourCharPresent
  ++ le16N h.nbEvents ++ le16 h.empty2
  ++ (h.evTimes.map f32le).flatten
  ++ (h.evDisplay.map le16N).flatten
  ++ le16 h.empty3
  ++ (h.evLabels.map label4).flatten
  ++ (List.replicate 22 (le16 h.empty4)).flatten

/-- `hasSize`: product of the dimensions accumulated in an `int` -/
def hasSize (dims : List Nat) : Int := if dims.length = 0 then 0 else u64ToI32 (prodU64 dims)

/-- one string cell: the text then spaces up to the declared width -/
def strCell (width : Nat) (s : Bytes) : Bytes := s ++ spaces (width - s.length)

/-- `writeImbricatedParameter`: the nested loops visit `count = ∏ dims[start..]` leaves in order,
    leaf `cmp` writes element `cmp` of the value vector selected by the type (`v[cmp]` unchecked). -/
def Param.writeValues (p : Param) (count : Nat) : Res Bytes :=
  match p.type with
  | .byte => if p.ints.length < count then .ub .vecIndex else .ok ((p.ints.take count).map low8)
  | .int => if p.ints.length < count then .ub .vecIndex else .ok ((p.ints.take count).map le16).flatten
  | .float => if p.floats.length < count then .ub .vecIndex else .ok ((p.floats.take count).map f32le).flatten
  | .char => if p.strs.length < count then .ub .vecIndex
             else .ok ((p.strs.take count).map (strCell (p.dims.headD 0))).flatten
  | .none => .ok []

/-- value part of a parameter record; second component: offset of the DATA_START slot.
    `inPoint`: the record belongs to the group named POINT. Only there is an integer scalar named
    DATA_START the special parameter of the standard (left blank, patched by `Parameters::write`); in any
    other group `Group::write` puts the stored value back, which gives the bytes of the generic path. -/
def Param.writeData (p : Param) (inPoint : Bool) : Res (Bytes × Option Nat) :=
  if hasSize p.dims > 0 then
    if p.type = .char then
      if p.dims.length = 1 then
        match p.strs with
        | s0 :: _ => .ok (strCell (p.dims.headD 0) s0, none)
        | [] => .ub .vecIndex
      else (p.writeValues (p.dims.drop 1).prod).bind fun b => .ok (b, none)
    else if p.name = DATA_START ∧ p.type = .int ∧ hasSize p.dims = 1 ∧ inPoint = true then .ok ([0, 0], some 0)
    else (p.writeValues p.dims.prod).bind fun b => .ok (b, none)
  else .ok ([], none)

def dimBytes (dims : List Nat) : Bytes :=
  if dims = [1] then [0] else low8N dims.length :: dims.map low8N

/-- `Parameter::write(f, groupIdx, dataStartPosition)`; `gid` is the (positive) group id. -/
def Param.write (p : Param) (gid : Int) (inPoint : Bool) : Res (Bytes × Option Nat) :=
  (p.writeData inPoint).bind fun (vals, slot) =>
  let nameLen : Int := if p.locked then -(p.name.length : Int) else p.name.length
  let pre := [low8 nameLen, low8 gid] ++ toUpper p.name
  let body := [low8 p.type.code] ++ dimBytes p.dims
  let tail := vals ++ [low8N p.desc.length] ++ p.desc
  let off : Int := 2 + body.length + tail.length
  .ok (pre ++ le16 off ++ body ++ tail, slot.map fun o => pre.length + 2 + body.length + o)

/-- parameters of a group, in order; the last DATA_START slot wins -/
def writeParamList (gid : Int) (inPoint : Bool) : List Param → Res (Bytes × Option Nat)
  | [] => .ok ([], none)
  | p :: rest =>
    (p.write gid inPoint).bind fun (b, s1) =>
    (writeParamList gid inPoint rest).bind fun (bs, s2) =>
    .ok (b ++ bs, match s2 with | some o => some (b.length + o) | none => s1)

/-- `Group::write(f, -(i+1), dataStartPosition)` -/
def Group.write (g : Group) (i : Nat) : Res (Bytes × Option Nat) :=
  let nameLen : Int := if g.locked then -(g.name.length : Int) else g.name.length
  let off : Int := 2 + 1 + g.desc.length
  let rec_ := [low8 nameLen, low8 (-((i : Int) + 1))] ++ toUpper g.name ++ le16 off ++ [low8N g.desc.length] ++ g.desc
  (writeParamList ((i : Int) + 1) (g.name == POINT) g.params).bind fun (bs, s) =>
  .ok (rec_ ++ bs, s.map fun o => rec_.length + o)

/-- groups in order; unnamed placeholder groups are skipped but still count for the numbering -/
def writeGroupList : List Group → Nat → Res (Bytes × Option Nat)
  | [], _ => .ok ([], none)
  | g :: rest, i =>
    (if g.name = [] then .ok ([], none) else g.write i).bind fun (b, s1) =>
    (writeGroupList rest (i + 1)).bind fun (bs, s2) =>
    .ok (b ++ bs, match s2 with | some o => some (b.length + o) | none => s1)

def padLen (pos : Nat) : Nat := 512 - pos % 512

/-- `Parameters::write` for a section that starts at absolute position `base` (512 in c3d::write):
    prologue, groups, zero padding to the block boundary, then the two back-patches. -/
def writeParamSection (ph : PHeader) (groups : List Group) (base : Nat) : Res Bytes :=
  (writeGroupList groups 0).bind fun (gb, slot) =>
  let unpadded := base + 4 + gb.length
  let endPos := unpadded + padLen unpadded
  let len := endPos - base - 4           -- int(actualPos - pos - 2), pos = base + 2
  let nBlocks : Int := len / 512 + (if len % 512 > 0 then 1 else 0)
  let dsVal : Int := endPos / 512 + (if endPos % 512 > 0 then 1 else 0) + 1
  let gb' := match slot with
    | some o => gb.set o (low8 dsVal)
    | none => gb
  .ok ([low8N ph.start, 0x50, low8 nBlocks, 84] ++ gb' ++ List.replicate (padLen unpadded) 0)

def Point.write (p : Point) : Bytes := f32le p.x ++ f32le p.y ++ f32le p.z ++ f32le p.r
def Frame.write (f : Frame) : Bytes :=
  (f.pts.map Point.write).flatten ++ (f.subs.map fun sf => (sf.map fun c => f32le c.v).flatten).flatten
def writeData (frames : List Frame) : Bytes := (frames.map Frame.write).flatten

/-- `c3d::write` on a stream that accepts everything: the bytes of the file. -/
def C3D.write (s : C3D) : Res Bytes :=
  (writeParamSection s.ph s.groups 512).bind fun ps =>
  let dataPos := 512 + ps.length
  .ok (s.hdr.write (dataPos / 512 + 1) ++ ps ++ writeData s.frames)

end Ezc3d
