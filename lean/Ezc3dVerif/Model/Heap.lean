import Ezc3dVerif.Model.Types
/-
  The handle level of Frame (include/Frame.h, src/Frame.cpp, src/Data.cpp:130-155, src/ezc3d.cpp:340-440).
  A C++ `Frame` is two `shared_ptr`s: copying a Frame object copies the HANDLES, so two Frame objects may
  denote the same Points/Analogs cells. `Frame()` allocates two fresh cells; `Frame::add(src)` allocates
  fresh cells holding copies of the source's payloads. The value model (Model/Api.lean) treats frames as
  values; this file is the layer below it, where sharing can be expressed, and Properties/C08.lean proves
  that the code's discipline (clone on every path into `Data::_frames`) makes the value model exact.
-/
namespace Ezc3d.Heap

/-- a C++ `Frame` object: the two handles -/
structure HFrame where
  pts : Nat
  subs : Nat
  deriving DecidableEq, Repr

/-- every Points / Analogs object ever allocated (address = index; nothing is freed: garbage is harmless),
    the frames stored in `Data::_frames`, and every Frame object on the caller's side -/
structure Heap where
  P : List (List Point) := []
  A : List (List SubFrame) := []
  stored : List HFrame := []
  vars : List HFrame := []
  deriving Repr

def Heap.derefP (h : Heap) (a : Nat) : List Point := h.P.getD a []
def Heap.derefA (h : Heap) (a : Nat) : List SubFrame := h.A.getD a []
/-- the value a Frame object denotes -/
def Heap.deref (h : Heap) (f : HFrame) : Frame := { pts := h.derefP f.pts, subs := h.derefA f.subs }
/-- what the object stores, as values: the abstraction to the value model's `C3D.frames` -/
def Heap.view (h : Heap) : List Frame := h.stored.map h.deref

/-- `Frame f; f.add(src)`: fresh cells holding copies of the payloads `src` denotes -/
def Heap.clone (h : Heap) (src : HFrame) : Heap × HFrame :=
  ({ h with P := h.P ++ [h.derefP src.pts], A := h.A ++ [h.derefA src.subs] }, { pts := h.P.length, subs := h.A.length })

/-- one default-constructed frame appended to `_frames` (what `vector::resize` does for each new slot):
    its own pair of fresh, empty cells -/
def Heap.pushBlank (h : Heap) : Heap :=
  { h with P := h.P ++ [[]], A := h.A ++ [[]], stored := h.stored ++ [{ pts := h.P.length, subs := h.A.length }] }
/-- `n` more blank frames -/
def Heap.growBy (h : Heap) : Nat → Heap
  | 0 => h
  | n + 1 => h.pushBlank.growBy n

/-! ### caller side -/

/-- the caller builds a Frame from values (`Frame f; f.add(points, analogs)`) -/
def Heap.callerMk (h : Heap) (v : Frame) : Heap :=
  { h with P := h.P ++ [v.pts], A := h.A ++ [v.subs], vars := h.vars ++ [{ pts := h.P.length, subs := h.A.length }] }
/-- the caller copies a Frame object (copy constructor, `vector::push_back(frame)`): the copy SHARES the cells -/
def Heap.callerCopy (h : Heap) (v : Nat) : Heap :=
  match h.vars[v]? with
  | some f => { h with vars := h.vars ++ [f] }
  | none => h
/-- the caller changes the points of one of its frames in place (`points_nonConst()`) -/
def Heap.callerMutP (h : Heap) (v : Nat) (g : List Point → List Point) : Heap :=
  match h.vars[v]? with
  | some f => { h with P := h.P.set f.pts (g (h.derefP f.pts)) }
  | none => h
def Heap.callerMutA (h : Heap) (v : Nat) (g : List SubFrame → List SubFrame) : Heap :=
  match h.vars[v]? with
  | some f => { h with A := h.A.set f.subs (g (h.derefA f.subs)) }
  | none => h

/-! ### the object's side (Data.cpp, ezc3d.cpp) -/

/-- `Data::frame(frame)` (append): clone, then push the clone -/
def Heap.frameAppend (h : Heap) (src : HFrame) : Heap :=
  let (h1, nf) := h.clone src
  { h1 with stored := h1.stored ++ [nf] }

/-- `Data::frame(frame, idx)`: clone first (the source may be a stored frame), grow with blank frames,
    then `_frames[idx].add(newFrame)` — a second clone whose handles replace those of slot `idx` -/
def Heap.frameAt (h : Heap) (src : HFrame) (idx : Nat) : Heap :=
  let (h1, nf) := h.clone src
  let h3 := h1.growBy (idx + 1 - h1.stored.length)
  let (h4, nf2) := h3.clone nf
  { h4 with stored := h4.stored.set idx nf2 }

/-- the object changes the points of its frame `i` in place (`frame_nonConst(i).points_nonConst()`) -/
def Heap.storedMutP (h : Heap) (i : Nat) (g : List Point → List Point) : Heap :=
  match h.stored[i]? with
  | some f => { h with P := h.P.set f.pts (g (h.derefP f.pts)) }
  | none => h
def Heap.storedMutA (h : Heap) (i : Nat) (g : List SubFrame → List SubFrame) : Heap :=
  match h.stored[i]? with
  | some f => { h with A := h.A.set f.subs (g (h.derefA f.subs)) }
  | none => h

/-- both payloads of stored frame `i` changed in place -/
def Heap.storedMut (h : Heap) (i : Nat) (gp : List Point → List Point) (ga : List SubFrame → List SubFrame) : Heap :=
  (h.storedMutP i gp).storedMutA i ga

/-- the loops of `c3d::point(frames)` / `c3d::analog(frames)`: stored frame `k + j` is changed in place by the
    `j`-th edit (for points: append the new points of `frames[k+j]`; for analogs: extend each sub-frame) -/
def Heap.mutEach (h : Heap) : Nat → List ((List Point → List Point) × (List SubFrame → List SubFrame)) → Heap
  | _, [] => h
  | k, g :: rest => (h.storedMut k g.1 g.2).mutEach (k + 1) rest

/-- `c3d::point(frames)` after its checks: frame `i` gets the points `cols[i]` appended -/
def Heap.pointCols (h : Heap) (cols : List (List Point)) : Heap :=
  h.mutEach 0 (cols.map fun ps => ((· ++ ps), id))

/-- `c3d::analog(frames)` after its checks: the first `nsf` sub-frames of frame `i` get the channels `cols[i][sf]` -/
def Heap.analogCols (h : Heap) (nsf : Nat) (cols : List (List (List Channel))) : Heap :=
  h.mutEach 0 (cols.map fun cs => (id, fun subs => List.zipWith (· ++ ·) (subs.take nsf) cs ++ subs.drop nsf))

/-- the code BEFORE fix 05c84b3: the pushed frame shared the caller's cells -/
def Heap.frameAppendShared (h : Heap) (src : HFrame) : Heap := { h with stored := h.stored ++ [src] }

/-- separation: the stored frames own their cells — no cell is used by two stored frames or by a stored frame
    and a caller's frame; every handle is allocated -/
structure Sep (h : Heap) : Prop where
  nodupP : (h.stored.map (·.pts)).Nodup
  nodupA : (h.stored.map (·.subs)).Nodup
  allocS : ∀ f ∈ h.stored, f.pts < h.P.length ∧ f.subs < h.A.length
  allocV : ∀ f ∈ h.vars, f.pts < h.P.length ∧ f.subs < h.A.length
  apartP : ∀ f ∈ h.vars, ∀ g ∈ h.stored, f.pts ≠ g.pts
  apartA : ∀ f ∈ h.vars, ∀ g ∈ h.stored, f.subs ≠ g.subs

end Ezc3d.Heap
